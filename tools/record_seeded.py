#!/usr/bin/env python3
"""record_seeded.py RESULTS.jsonl RAWDIR  ->  /verif/seeded/<ID>/{patch.diff,demo.rs,meta.json} + /verif/seeded/RESULTS.md
RESULTS.jsonl: one JSON line per seeded change as printed by tools/try_mutant.sh
RAWDIR/<ID>/: patch.diff, demo.rs, meta.txt as delivered by the sub-agent that wrote the change."""
import json, os, shutil, sys

res, raw = sys.argv[1], sys.argv[2]
VERIF = os.path.dirname(os.path.dirname(os.path.abspath(__file__)))
out = os.path.join(VERIF, "seeded")
os.makedirs(out, exist_ok=True)
rows = {}
for line in open(res):
    line = line.strip()
    if not line:
        continue
    d = json.loads(line)
    rows[d["name"]] = d           # later lines win (re-runs)
table = []
for name in sorted(rows):
    d = rows[name]
    sid = name.upper().replace("-M", "-")          # c03-m1 -> C03-1
    src = os.path.join(raw, sid)
    dst = os.path.join(out, sid)
    os.makedirs(dst, exist_ok=True)
    for f in ("patch.diff", "demo.rs"):
        if os.path.abspath(src) != os.path.abspath(dst):
            shutil.copy(os.path.join(src, f), os.path.join(dst, f))
    mt = os.path.join(src, "meta.txt")
    if not os.path.exists(mt):
        mt = os.path.join(src, "author_notes.txt")
    author_notes = open(mt).read()
    open(os.path.join(dst, "author_notes.txt"), "w").write(author_notes)
    extra = {}
    ex = os.path.join(dst, "confirm_extra.json")
    if os.path.exists(ex):
        extra = json.load(open(ex))
    meta = {
        "id": sid,
        "breaks_property": d["target"],
        "written_by": "independent sub-agent given only the property text and a scratch worktree of /repo (nothing from /verif)",
        "what_it_needs_to_manifest": author_notes,
        "confirmed_in_scratch_copy": {
            "existing_suite_with_change": d["suite_with_change"],
            "demo_passes_without_change": extra.get("demo_passes_without", d["demo_passes_without"]),
            "demo_fails_with_change": extra.get("demo_fails_with", d["demo_fails_with"]),
            "commands": [
                "rsync /repo -> /tmp/mt-<id>; cp demo.rs indextree/tests/; cargo test --offline -p indextree --all-features --test <demo>   (must pass)",
                "patch -p1 < patch.diff; same demo command (must fail); cargo test --workspace --offline (must pass without the demo)",
                "VERIF_REPO=/tmp/mt-<id> ./check <P> quick for every P listed below (tools/try_mutant.sh)",
            ] + extra.get("commands", []),
        },
        "checks_that_alarm": d["caught_by"].split(),
        "checks_that_stay_quiet": d["not_flagged_by"].split(),
        "harness_errors": d["harness_errors"].split(),
    }
    nt = os.path.join(dst, "note.txt")
    if os.path.exists(nt):
        meta["note"] = open(nt).read().strip()
    json.dump(meta, open(os.path.join(dst, "meta.json"), "w"), indent=1)
    table.append((sid, d["target"], d["suite_with_change"], meta["confirmed_in_scratch_copy"]["demo_passes_without_change"],
                  meta["confirmed_in_scratch_copy"]["demo_fails_with_change"], d["caught_by"], d["harness_errors"]))
with open(os.path.join(out, "RESULTS.md"), "w") as f:
    f.write("# Seeded changes (written by independent sub-agents) and the checks that catch them\n\n")
    f.write("Each change compiles, passes the 45 existing tests, and breaks the property named in column 2; confirmed in a scratch copy\n")
    f.write("of /repo with tools/try_mutant.sh (never applied to /repo). `quick` tier, VERIF_SEED=1.\n\n")
    f.write("| id | breaks | suite with change | demo passes without | demo fails with | checks that alarm | harness errors |\n|---|---|---|---|---|---|---|\n")
    for r in table:
        f.write("| %s | %s | %s | %s | %s | %s | %s |\n" % r)
    caught = sum(1 for r in table if r[1] in r[5].split())
    f.write("\nNot every check was run against every change (target + C01 C03 C05 C08 C12 for histsim targets; C17 + C07; C18): 'checks that alarm' lists\nthose of the checks run that alarmed; meta.json of each change also lists the ones that were run and stayed quiet.\n")
    f.write("\n%d of %d seeded changes are caught by the check of the property they were written to break; %d by at least one check.\n"
            % (caught, len(table), sum(1 for r in table if r[5].strip())))
with open(os.path.join(out, "results.jsonl"), "w") as f:
    for name in sorted(rows):
        f.write(json.dumps(rows[name]) + "\n")
print("recorded", len(table))
