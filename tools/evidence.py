#!/usr/bin/env python3
"""Merge the evidence parts written by the engines of one check into /verif/evidence/<id>.json.
usage: evidence.py ID TIER SEED WALL_S OUT part.json...
Every count comes from the parts (measured by the engines on this run); nothing is a constant."""
import json, sys, os

ID, TIER, SEED, WALL, OUT = sys.argv[1:6]
parts = []
for p in sys.argv[6:]:
    try:
        parts.append(json.load(open(p)))
    except Exception as e:  # a missing part (e.g. after a violation in an earlier leg) is not an error
        pass
if not parts:
    sys.stderr.write("evidence.py: no readable evidence part\n")
    sys.exit(1)

RULES = {
    "histsim": "seeded histories: run i uses seed mix(VERIF_SEED, fnv(property), i); the seed draws a swarm configuration "
               "(scope, op weights, fault rates, payload type, capacity) and then ops one at a time from the model state. "
               "distinct_nontrivial counts DISTINCT (canonical forest-shape hash before the op, op kind, argument-relation class, "
               "outcome class) tuples of state-changing steps (incl. refused / panicked / restart events), with a set; "
               "observation-only steps and skipped ops are not counted. Same-seed legs (release / relassert) explore the same "
               "tuples, so the maximum over legs is reported, not the sum.",
    "buildmatrix": "the same run seeds executed by one binary per build configuration; evaluations = runs x configurations, "
                   "distinct_nontrivial = number of distinct per-run event-log digests that were compared across all configurations",
    "abyss": "engine abyss: one child process per run builds a seeded chain of 12000..70000 (thorough: ..250000) levels on a thread with a "
             "2 MiB stack and executes a seeded probe list against bookkeeping expectations; its tuples (probe kind, outcome, log2 depth) "
             "are counted separately in legs[].distinct_nontrivial",
    "threadsim": "distinct_nontrivial = number of distinct (arena history seed, per-thread read lists) scenarios executed "
                 "under shuttle schedules, plus Miri seeds; evaluations = schedules executed",
}
ASSUME = [
    "seeded sampling, not proof: a clean batch is evidence only (bounds: <= 1300 live nodes, <= 4000 ops per run, <= 150000 recycles per op; "
    "engine abyss (C03, C05, C07 only): one chain of <= 70000 levels (thorough: 250000) and <= 15 probes per run, unoptimised and release builds, 2 MiB stack)",
    "valid-call rule of DESIGN.md 3.1: detach/remove/remove_subtree/payload writes/reads get live ids only; insert entry points and "
    "append_value may also get removed-not-yet-recycled ids; stale ids go to NodeId::is_removed only",
    "reference model (sim/src/model.rs) is trusted as the statement of the documented behaviour; free-slot order, error variant names, "
    "retirement threshold (>= 10000 recycles), capacity after clear (>=) are deliberately not fixed by it",
    "toolchain: rustc 1.95 stable (histsim, shuttle), nightly 2026-05-03 (Miri)",
]
COMPONENTS = {
    "real": ["indextree (all modules, built from the current working tree of the repository)", "indextree-macros expansions (tree! op)",
             "serde derive output of indextree", "serde_json", "rayon", "std Vec / fmt"],
    "stub": ["payload types (Tracked with drop ledger, u8, Wide, String)", "fmt::Write sink", "simulated disk (short/interrupted/torn I/O)",
             "binary serde format (sim/src/serde_bin.rs)", "reference forest model", "thread scheduler (shuttle / Miri)"],
}

def merge_counts(key):
    out = {}
    for p in parts:
        for k, v in (p.get(key) or {}).items():
            out[k] = out.get(k, 0) + v
    return out

engines = sorted({p.get("engine", "histsim") for p in parts})
evaluations = sum(int(p.get("evaluations", 0)) for p in parts)
distinct = max(int(p.get("distinct_nontrivial", 0)) for p in parts)
samples = []
for p in parts:
    for s in p.get("samples", []):
        if len(samples) < 4 and s not in samples:
            samples.append(s)
if not samples:
    samples = [{"note": "no run of <= 12 ops completed in this batch"}]
violations = sum(int(p.get("violations", 0)) for p in parts)
steps = sum(int(p.get("steps_total", 0)) for p in parts)
wall = float(WALL)
cov = {
    "evaluations": evaluations,
    "distinct_nontrivial": distinct,
    "rule": " | ".join(RULES[e] for e in engines if e in RULES),
    "samples": samples,
    "exhaustive": False,
    "steps_total": steps,
    "simulated_time_note": "there is no clock in this system; logical time is reported as executed steps",
    "runs_per_hour": int(evaluations / max(wall, 1e-6) * 3600),
    "distinct_states": max(int(p.get("distinct_states", 0)) for p in parts),
    "distinct_schedules": sum(int(p.get("distinct_schedules", 0)) for p in parts),
    "runs_truncated_foreign": sum(int(p.get("runs_truncated_foreign", 0)) for p in parts),
    "fault_kinds_fired": merge_counts("fault_kinds_fired"),
    "probes": merge_counts("probes"),
    "op_rel_outcome": merge_counts("op_rel_outcome"),
    "known_findings_seen": sorted({k for p in parts for k in p.get("known_findings_seen", [])}),
    "components": COMPONENTS,
    "legs": [{k: p.get(k) for k in ("engine", "profile", "features", "evaluations", "digests_compared", "distinct_nontrivial", "wall_s", "violations", "configurations", "note") if k in p} for p in parts],
}
ev = {
    "property_id": ID,
    "tier": TIER,
    "seed": int(SEED),
    "level": "exploration",
    "coverage": cov,
    "assumptions": ASSUME,
    "wall_s": round(wall, 3),
    "violations": violations,
}
os.makedirs(os.path.dirname(OUT), exist_ok=True)
tmp = OUT + ".tmp"
json.dump(ev, open(tmp, "w"), indent=1)
os.replace(tmp, OUT)
