#!/usr/bin/env bash
# tools/try_mutant.sh <name> <patch.diff> <demo.rs|-> <target-property> [properties to run...]
# Confirms a seeded change in a scratch copy of /repo (never in /repo itself):
#   suite green with the change, demo fails with / passes without the change,
# then runs the listed checks (default: all) against the scratch copy and reports which alarm.
# Writes a JSON summary to stdout (last line) and logs to /verif/.build/mutants/<name>/.
set -u
VERIF="$(cd "$(dirname "${BASH_SOURCE[0]}")/.." && pwd)"
NAME="$1"; PATCH="$(readlink -f "$2")"; DEMO="$3"; TARGET="$4"; shift 4
PROPS=("$@"); [ ${#PROPS[@]} -gt 0 ] || PROPS=(C01 C02 C03 C04 C05 C06 C07 C08 C09 C10 C11 C12 C13 C14 C16 C17 C18)
S="/tmp/mt-$NAME"; LOGD="$VERIF/.build/mutants/$NAME"; mkdir -p "$LOGD"
rm -rf "$S"; mkdir -p "$S"
rsync -a --exclude target --exclude .git /repo/ "$S/"
export CARGO_NET_OFFLINE=true CARGO_TARGET_DIR="$S/target"
demo_ok_without="n/a"; demo_fails_with="n/a"
if [ "$DEMO" != "-" ]; then
  cp "$DEMO" "$S/indextree/tests/${DEMO_NAME:-zz_demo}.rs"
  if (cd "$S" && cargo test --offline -q -p indextree --all-features --test ${DEMO_NAME:-zz_demo} >"$LOGD/demo-without.log" 2>&1); then demo_ok_without=yes; else demo_ok_without=NO; fi
fi
if ! (cd "$S" && patch -p1 --no-backup-if-mismatch < "$PATCH" >"$LOGD/patch.log" 2>&1); then echo "{\"name\":\"$NAME\",\"error\":\"patch does not apply\"}"; exit 2; fi
if [ "$DEMO" != "-" ]; then
  if (cd "$S" && cargo test --offline -q -p indextree --all-features --test ${DEMO_NAME:-zz_demo} >"$LOGD/demo-with.log" 2>&1); then demo_fails_with=NO; else demo_fails_with=yes; fi
  rm -f "$S/indextree/tests/${DEMO_NAME:-zz_demo}.rs"
fi
if (cd "$S" && cargo test --workspace --offline -q >"$LOGD/suite.log" 2>&1); then suite=green; else suite=RED; fi
unset CARGO_TARGET_DIR
caught=(); missed=(); errs=()
for p in "${PROPS[@]}"; do
  VERIF_REPO="$S" VERIF_EVIDENCE_DIR="$LOGD/evidence" VERIF_REPLAY_DIR="$LOGD/replays" "$VERIF/check" "$p" quick >"$LOGD/check-$p.log" 2>&1; rc=$?
  case $rc in 0) missed+=("$p");; 1) caught+=("$p");; *) errs+=("$p");; esac
done
TAGN="alt-$(echo -n "$S" | cksum | cut -d' ' -f1)"
rm -rf "$S" "$VERIF/.build/$TAGN" "$VERIF"/.build/$TAGN-*
printf '{"name":"%s","target":"%s","suite_with_change":"%s","demo_passes_without":"%s","demo_fails_with":"%s","caught_by":"%s","not_flagged_by":"%s","harness_errors":"%s"}\n' \
  "$NAME" "$TARGET" "$suite" "$demo_ok_without" "$demo_fails_with" "${caught[*]:-}" "${missed[*]:-}" "${errs[*]:-}"
