#!/usr/bin/env bash
# ./check --selftest determinism
# Determinism first: many run seeds, each executed in separate processes, at worker counts 1, 5
# and 16, in two build profiles; the per-run event-log digests must be identical.
set -u
VERIF="$(cd "$(dirname "${BASH_SOURCE[0]}")/.." && pwd)"
WHAT="${1:-determinism}"
[ "$WHAT" = determinism ] || { echo "unknown selftest $WHAT" >&2; exit 2; }
REL="$("$VERIF/check" --build-cfg all-release | tail -1)" || exit 2
RAS="$("$VERIF/check" --build-cfg all-relassert | tail -1)" || exit 2
NOS="$("$VERIF/check" --build-cfg nostd | tail -1)" || exit 2
OUT="$VERIF/.build/selftest"; mkdir -p "$OUT"; rm -f "$OUT"/*.dig
N="${SELFTEST_RUNS:-5000}"
rc=0
for prop in C17 C01 C05 C06 C07 C08 C10 C12 C13 C14 C16; do
  runs=$N; [ "$prop" = C06 ] && runs=$(( N / 10 ))
  for seed in 1 77; do
    "$REL" digest --prop $prop --seed $seed --runs $runs --threads 16 --full > "$OUT/$prop-$seed-rel16a.dig" &
    "$REL" digest --prop $prop --seed $seed --runs $runs --threads 5  --full > "$OUT/$prop-$seed-rel5.dig" &
    "$REL" digest --prop $prop --seed $seed --runs $runs --threads 1  --full > "$OUT/$prop-$seed-rel1.dig" &
    "$RAS" digest --prop $prop --seed $seed --runs $runs --threads 16 --full > "$OUT/$prop-$seed-ras16.dig" &
    "$NOS" digest --prop $prop --seed $seed --runs $runs --threads 7  --full > "$OUT/$prop-$seed-nos7.dig" &
    wait
    "$REL" digest --prop $prop --seed $seed --runs $runs --threads 16 --full > "$OUT/$prop-$seed-rel16b.dig"
    ref="$OUT/$prop-$seed-rel16a.dig"
    ok=yes
    legs="rel16b rel5 rel1 ras16 nos7"
    # the C17 battery contains calls with stale ids (logged, not judged): for such misuse the library's
    # debug assertions legitimately change the outcome, so that profile is not compared across
    # debug-assertion settings (C05's profile, which is, contains no misuse)
    [ "$prop" = C17 ] && legs="rel16b rel5 rel1 nos7"
    for f in $legs; do
      if ! diff -q <(grep -v '^DIGEST' "$ref") <(grep -v '^DIGEST' "$OUT/$prop-$seed-$f.dig") >/dev/null; then
        echo "NONDETERMINISM: $prop seed $seed: rel16a vs $f differ"; rc=1; ok=NO
      fi
    done
    echo "determinism: $prop seed $seed: $(grep -c -v '^DIGEST' "$ref") runs x $(( $(echo $legs | wc -w) + 1 )) executions (workers 16,16,5,1; relassert; no_std build) identical: $ok"
  done
done
[ $rc = 0 ] && echo "SELFTEST determinism: PASS" || echo "SELFTEST determinism: FAIL"
exit $rc
