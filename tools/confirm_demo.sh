#!/usr/bin/env bash
# tools/confirm_demo.sh <dir with patch.diff demo.rs> <demo-test-name>
# Finds a cargo test configuration in which the demo passes on the unchanged tree and fails with
# the change (some seeded changes only show without debug assertions or under particular features).
# Prints a JSON object for seeded/<id>/confirm_extra.json.
set -u
D="$(readlink -f "$1")"; NAME="${2:-zz_demo}"
S="/tmp/cd-$$"; rm -rf "$S"; mkdir -p "$S"
rsync -a --exclude target --exclude .git /repo/ "$S/a/"; rsync -a --exclude target --exclude .git /repo/ "$S/b/"
cp "$D/demo.rs" "$S/a/indextree/tests/$NAME.rs"; cp "$D/demo.rs" "$S/b/indextree/tests/$NAME.rs"
(cd "$S/b" && patch -p1 -s --no-backup-if-mismatch < "$D/patch.diff") || { echo '{"error":"patch does not apply"}'; exit 2; }
export CARGO_NET_OFFLINE=true
for v in "" "--release" "--features deser" "--features par_iter" "--no-default-features" "--release --features deser" "--all-features" "--release --all-features"; do
  if (cd "$S/a" && CARGO_TARGET_DIR="$S/ta" cargo test --offline -q -p indextree $v --test "$NAME" >/dev/null 2>&1); then
    if ! (cd "$S/b" && CARGO_TARGET_DIR="$S/tb" cargo test --offline -q -p indextree $v --test "$NAME" >/dev/null 2>&1); then
      printf '{"demo_passes_without": "yes", "demo_fails_with": "yes", "commands": ["cargo test --offline -p indextree %s --test <demo>: passes on the unchanged tree, fails with the change"]}\n' "$v"
      rm -rf "$S"; exit 0
    fi
  fi
done
echo '{"demo_passes_without": "?", "demo_fails_with": "NO (no tried configuration shows it)", "commands": []}'
rm -rf "$S"; exit 1
