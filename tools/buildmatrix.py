#!/usr/bin/env python3
"""Engine `buildmatrix`: configuration-differential replay (C17; debug/release leg of C05).

  buildmatrix.py compare ID TIER SEED OUTPART name=digestfile=binary ...
      compare the per-run event-log digests written by `ixsim run --digests-out` in several build
      configurations; on a difference: dump the run as an explicit op list, minimise it with
      "the two binaries disagree on the log of this op list" as predicate, write a replay file,
      print VIOLATION and exit 1.
  buildmatrix.py replay FILE
      re-execute a buildmatrix replay file in the configurations it names.
"""
import json, os, subprocess, sys, time

VERIF = os.path.dirname(os.path.dirname(os.path.abspath(__file__)))


def steplog(binary, path):
    r = subprocess.run([binary, "steplog", path], capture_output=True, text=True, timeout=600)
    if r.returncode != 0:
        raise RuntimeError("steplog failed in %s: %s" % (binary, r.stderr[:300]))
    out = []
    found = None
    for line in r.stdout.splitlines():
        p = line.split()
        if p and p[0] == "found":
            found = line
        elif len(p) >= 2:
            out.append(p[1])
    return out, found


def first_diff(a, b):
    for i in range(min(len(a), len(b))):
        if a[i] != b[i]:
            return i
    if len(a) != len(b):
        return min(len(a), len(b))
    return None


def disagree(binA, binB, rp, tmp):
    json.dump(rp, open(tmp, "w"))
    la, fa = steplog(binA, tmp)
    lb, fb = steplog(binB, tmp)
    d = first_diff(la, lb)
    if d is None and (fa is None) != (fb is None):
        d = len(la) - 1 if la else 0
    return d


def minimise(binA, binB, rp, tmp, budget_s=60):
    t0 = time.time()
    d = disagree(binA, binB, rp, tmp)
    if d is None:
        return rp, False
    rp = dict(rp)
    rp["ops"] = rp["ops"][: d + 1]
    i = len(rp["ops"]) - 2
    while i >= 0 and time.time() - t0 < budget_s:
        cand = dict(rp)
        cand["ops"] = rp["ops"][:i] + rp["ops"][i + 1:]
        if disagree(binA, binB, cand, tmp) is not None:
            rp = cand
        i -= 1
    d = disagree(binA, binB, rp, tmp)
    if d is not None:
        rp["ops"] = rp["ops"][: d + 1]
    rp["minimised"] = True
    rp["violation"]["step"] = len(rp["ops"]) - 1
    if rp["ops"]:
        rp["violation"]["op"] = list(rp["ops"][-1].keys())[0] if isinstance(rp["ops"][-1], dict) else str(rp["ops"][-1])
    return rp, True


def batchdigest(binary, ID, SEED, runs):
    r = subprocess.run([binary, "batchdigest", "--prop", ID, "--seed", str(SEED), "--runs", ",".join(str(x) for x in runs)],
                       capture_output=True, text=True, timeout=600)
    for line in r.stdout.splitlines():
        if line.startswith("BATCHDIGEST"):
            return line
    return None


def seqdigests(binary, ID, SEED, limit):
    r = subprocess.run([binary, "digest", "--prop", ID, "--seed", str(SEED), "--runs", str(limit), "--threads", "1", "--full"],
                       capture_output=True, text=True, timeout=1800)
    m = {}
    for line in r.stdout.splitlines():
        p = line.split()
        if len(p) == 2 and p[0].isdigit():
            m[int(p[0])] = p[1]
    return m


def batch_fallback(ID, SEED, nameA, binA, nameB, binB, path, limit=3000):
    a = seqdigests(binA, ID, SEED, limit)
    b = seqdigests(binB, ID, SEED, limit)
    diffs = sorted(i for i in set(a) | set(b) if a.get(i) != b.get(i))
    if not diffs:
        return None
    last = diffs[0]
    runs = None
    for j in range(last - 1, max(-1, last - 300), -1):
        if batchdigest(binA, ID, SEED, [j, last]) != batchdigest(binB, ID, SEED, [j, last]):
            runs = [j, last]
            break
    if runs is None:
        runs = list(range(0, last + 1))
        if batchdigest(binA, ID, SEED, runs) == batchdigest(binB, ID, SEED, runs):
            return None
    rp = {"engine": "buildmatrix-batch", "property": ID, "batch_seed": int(SEED), "runs": runs,
          "configurations": {nameA: binA, nameB: binB},
          "violation": {"kind": "event_log_differs_between_builds",
                        "detail": "generated runs executed one after the other on one thread in a fresh process: the event log of the last one differs between [%s] and [%s]" % (nameA, nameB)}}
    json.dump(rp, open(path, "w"), indent=1)
    print("batch replay: runs %s differ sequentially" % runs[:4])
    return rp


def cmd_compare(argv):
    ID, TIER, SEED, OUT = argv[:4]
    cfgs = []
    for a in argv[4:]:
        name, dig, binary = a.split("=", 2)
        cfgs.append((name, dig, binary))
    t0 = time.time()
    maps = {}
    for name, dig, _ in cfgs:
        m = {}
        for line in open(dig):
            p = line.split()
            if len(p) == 2:
                m[int(p[0])] = p[1]
        maps[name] = m
    base_name, _, base_bin = cfgs[0]
    base = maps[base_name]
    distinct = len(set(base.values()))
    part = {
        "engine": "buildmatrix",
        "property_id": ID,
        "configurations": [c[0] for c in cfgs],
        # the runs themselves are counted by the legs that executed them; this part only compares
        "evaluations": 0,
        "digests_compared": sum(len(m) for m in maps.values()),
        "distinct_nontrivial": distinct,
        "samples": [{"run_index": i, "digest_in_every_configuration": base[i]} for i in sorted(base)[:3]],
        "violations": 0,
        "note": "per-run event-log digests (op, outcome class, error class, returned ids, canonical post-state, traversal and pretty-print hashes) compared across configurations",
    }
    rc = 0
    for name, _, binary in cfgs[1:]:
        m = maps[name]
        if set(base) != set(m):
            # the legs did not execute the same runs (e.g. the harness was edited between two legs):
            # nothing can be concluded
            print("HARNESS-ERROR: the digest files of [%s] (%d runs) and [%s] (%d runs) do not cover the same runs" % (base_name, len(base), name, len(m)))
            rc = 2
            break
        diffs = sorted(i for i in set(base) | set(m) if base.get(i) != m.get(i))
        if not diffs:
            continue
        idx = diffs[0]
        print("buildmatrix: run %d differs between [%s] and [%s] (%d of %d runs differ)" % (idx, base_name, name, len(diffs), len(base)))
        rpdir = os.environ.get("RPDIR", os.path.join(VERIF, "replays"))
        os.makedirs(rpdir, exist_ok=True)
        path = os.path.join(rpdir, "%s-%s-%d-matrix.json" % (ID, SEED, idx))
        r = subprocess.run([base_bin, "dump", "--prop", ID, "--seed", SEED, "--index", str(idx), "--out", path], capture_output=True, text=True)
        if r.returncode != 0:
            print("HARNESS-ERROR: dump failed: " + r.stderr[:300])
            rc = 2
            break
        rp = json.load(open(path))
        rp["configurations"] = {base_name: base_bin, name: binary}
        tmp = path + ".tmp"
        rp2, ok = minimise(base_bin, binary, rp, tmp)
        if os.path.exists(tmp):
            os.remove(tmp)
        if not ok:
            # the difference depends on state that earlier runs left behind in the process (a static
            # or thread-local that exists in one build only): the reproducible unit is a sequence of
            # runs executed on one thread in a fresh process
            print("note: the op list of run %d alone does not reproduce the difference; looking for a sequence of runs" % idx)
            rp3 = batch_fallback(ID, SEED, base_name, base_bin, name, binary, path)
            if rp3 is None:
                print("HARNESS-ERROR: the difference between [%s] and [%s] does not reproduce sequentially either" % (base_name, name))
                rc = 2
                break
            print("VIOLATION property=%s replay=%s" % (ID, path))
            part["violations"] = 1
            rc = 1
            break
        rp2["violation"]["detail"] = "event logs of [%s] and [%s] differ for this op list" % (base_name, name)
        json.dump(rp2, open(path, "w"), indent=1)
        print("minimised %d -> %d ops" % (len(rp["ops"]), len(rp2["ops"])))
        print("VIOLATION property=%s replay=%s" % (ID, path))
        part["violations"] = 1
        rc = 1
        break
    part["wall_s"] = time.time() - t0
    json.dump(part, open(OUT, "w"), indent=1)
    return rc


def cmd_replay(argv):
    path = argv[0]
    rp = json.load(open(path))
    cfgs = rp.get("configurations", {})
    if rp.get("engine") == "buildmatrix-batch":
        bins = []
        for name in cfgs:
            r = subprocess.run([os.path.join(VERIF, "check"), "--build-cfg", name], capture_output=True, text=True)
            if r.returncode != 0:
                print("HARNESS-ERROR: cannot build configuration %s" % name)
                return 2
            bins.append(r.stdout.strip().splitlines()[-1])
        da = batchdigest(bins[0], rp["property"], rp["batch_seed"], rp["runs"])
        db = batchdigest(bins[1], rp["property"], rp["batch_seed"], rp["runs"])
        if da == db:
            print("replay: event logs agree in %s" % ", ".join(cfgs))
            return 0
        print("replay: after runs %s the event logs of %s differ" % (rp["runs"][:4], " and ".join(cfgs)))
        print("VIOLATION property=%s replay=%s" % (rp["property"], path))
        return 1
    if len(cfgs) != 2:
        print("HARNESS-ERROR: replay file names %d configurations" % len(cfgs))
        return 2
    bins = []
    for name in cfgs:
        r = subprocess.run([os.path.join(VERIF, "check"), "--build-cfg", name], capture_output=True, text=True)
        if r.returncode != 0:
            print("HARNESS-ERROR: cannot build configuration %s: %s" % (name, r.stderr[:300]))
            return 2
        bins.append(r.stdout.strip().splitlines()[-1])
    tmp = path + ".tmp"
    d = disagree(bins[0], bins[1], rp, tmp)
    if os.path.exists(tmp):
        os.remove(tmp)
    if d is None:
        print("replay: event logs agree in %s" % ", ".join(cfgs))
        return 0
    print("replay: event logs of %s differ at op #%d" % (" and ".join(cfgs), d))
    print("VIOLATION property=%s replay=%s" % (rp["property"], path))
    return 1


if __name__ == "__main__":
    if len(sys.argv) >= 2 and sys.argv[1] == "compare":
        sys.exit(cmd_compare(sys.argv[2:]))
    if len(sys.argv) >= 2 and sys.argv[1] == "replay":
        sys.exit(cmd_replay(sys.argv[2:]))
    sys.stderr.write(__doc__)
    sys.exit(2)
