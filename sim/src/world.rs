//! The simulated world: the real arena, its optional lock-step twin, the reference model, and the
//! step function that executes one op on the real code under `catch_unwind`, advances the model
//! and evaluates the oracles.

use crate::model::{Loc, Model};
use crate::ops::{ExecCfg, Key, Kind, Op};
use crate::payload::{self, Payload};
use crate::prng::Fnv;
use crate::rel::{classify, Rel};
use crate::util::{catch, trunc};
use indextree::{Arena, NodeId};
use std::collections::{BTreeMap, BTreeSet};
use std::num::NonZeroUsize;

#[derive(Clone, Debug)]
pub struct Viol {
    pub prop: &'static str,
    pub kind: &'static str,
    pub detail: String,
}

pub fn viol(prop: &'static str, kind: &'static str, detail: impl Into<String>) -> Viol {
    Viol {
        prop,
        kind,
        detail: detail.into(),
    }
}

#[derive(Clone, Copy, Debug, PartialEq, Eq)]
pub enum Class {
    Ok,
    Err,
    Panic,
}
impl Class {
    pub fn name(self) -> &'static str {
        match self {
            Class::Ok => "ok",
            Class::Err => "err",
            Class::Panic => "panic",
        }
    }
}

/// Result of one real call (or macro-op) on an arena.
#[derive(Clone, Debug)]
pub struct Raw {
    pub class: Class,
    /// Debug name of the error variant / panic message
    pub text: String,
    pub ids: Vec<NodeId>,
}

#[derive(Clone, Copy, Debug, PartialEq, Eq)]
pub enum ShadowKind {
    /// replay twin: same calls on a second, independently created arena (C13)
    Replay,
    /// brand-new arena running in lock-step with a cleared one (C13)
    Clear,
    /// the original of a serialise/deserialise round trip (C16)
    SerdeOrig,
}
impl ShadowKind {
    pub fn prop(self) -> &'static str {
        match self {
            ShadowKind::Replay | ShadowKind::Clear => "C13",
            ShadowKind::SerdeOrig => "C16",
        }
    }
}

/// Exact distinct counter for 64-bit hashes that stays compact for hundreds of millions of
/// insertions: an append-only vector that is sorted and deduplicated whenever it has doubled.
#[derive(Default, Clone)]
pub struct Distinct {
    v: Vec<u64>,
    clean: usize,
}
impl Distinct {
    pub fn insert(&mut self, x: u64) {
        self.v.push(x);
        if self.v.len() >= self.clean * 2 + (1 << 20) {
            self.compact();
        }
    }
    pub fn compact(&mut self) {
        self.v.sort_unstable();
        self.v.dedup();
        self.clean = self.v.len();
    }
    pub fn extend(&mut self, o: &Distinct) {
        self.v.extend_from_slice(&o.v);
        if self.v.len() >= self.clean * 2 + (1 << 20) {
            self.compact();
        }
    }
    pub fn len(&self) -> usize {
        let mut c = self.clone();
        c.compact();
        c.v.len()
    }
}

#[derive(Default, Clone)]
pub struct Stats {
    pub steps: u64,
    pub skipped: u64,
    pub ops: BTreeMap<(&'static str, &'static str, &'static str), u64>,
    pub faults: BTreeMap<&'static str, u64>,
    pub probes: BTreeMap<&'static str, u64>,
    pub distinct: Distinct,
    pub states: Distinct,
    pub schedules: Distinct,
}
impl Stats {
    pub fn fault(&mut self, k: &'static str) {
        *self.faults.entry(k).or_insert(0) += 1;
    }
    pub fn probe(&mut self, k: &'static str) {
        *self.probes.entry(k).or_insert(0) += 1;
    }
    pub fn merge(&mut self, o: &Stats) {
        self.steps += o.steps;
        self.skipped += o.skipped;
        for (k, v) in &o.ops {
            *self.ops.entry(*k).or_insert(0) += v;
        }
        for (k, v) in &o.faults {
            *self.faults.entry(k).or_insert(0) += v;
        }
        for (k, v) in &o.probes {
            *self.probes.entry(k).or_insert(0) += v;
        }
        self.distinct.extend(&o.distinct);
        self.states.extend(&o.states);
        self.schedules.extend(&o.schedules);
    }
}

pub struct Frozen<T: Payload> {
    pub arena: Arena<T>,
    pub shadow: Option<(Arena<T>, ShadowKind)>,
    pub model: Model,
    pub obs: u64,
    pub left: u32,
    pub swap: bool,
}

pub struct StepOut {
    pub skipped: bool,
    pub viols: Vec<Viol>,
    pub class: Class,
    pub rel: Rel,
}

pub struct World<T: Payload> {
    pub arena: Arena<T>,
    pub shadow: Option<(Arena<T>, ShadowKind)>,
    pub frozen: Option<Frozen<T>>,
    /// an older clone kept aside as destination of a later `clone_from`
    pub spare: Option<Arena<T>>,
    pub m: Model,
    pub cfg: ExecCfg,
    pub step_no: usize,
    pub stats: Stats,
    /// running digest of the event log
    pub log: Fnv,
    /// the model can no longer interpret the real state: the run must end
    pub diverged: bool,
    /// the run ends here by design (not because another property's defect was met)
    pub stop_clean: bool,
    /// blind continuation (C01 / C02 runs only): the model has lost track of the real links, the
    /// run goes on with ids that are live in the *real* arena and only the model-free invariants
    /// are evaluated
    pub blind: bool,
    /// sample older ids of each slot for `is_removed` (C06 runs)
    pub deep_c06: bool,
    /// steps since the last refused / panicked call (reach probes)
    pub since_reject: Option<u32>,
    pub since_panic: Option<u32>,
}

pub fn links_of<T>(arena: &Arena<T>, id: NodeId) -> [Option<NodeId>; 5] {
    let n = &arena[id];
    [
        n.parent(),
        n.previous_sibling(),
        n.next_sibling(),
        n.first_child(),
        n.last_child(),
    ]
}
pub const LINK_NAMES: [&str; 5] = [
    "parent",
    "previous_sibling",
    "next_sibling",
    "first_child",
    "last_child",
];

pub fn slot_of(id: NodeId) -> usize {
    id.into()
}

pub fn err_class(name: &str) -> &'static str {
    let name = name.split('|').next().unwrap_or(name);
    if name.contains("Removed") {
        "removed"
    } else if name.contains("Ancestor") {
        "ancestor"
    } else if name.contains("Self") {
        "self"
    } else {
        "other"
    }
}

/// One insert entry point on a raw arena.
pub fn raw_insert<T>(arena: &mut Arena<T>, kind: Kind, checked: bool, a: NodeId, b: NodeId) -> Raw {
    let r = catch(|| {
        if checked {
            match kind {
                Kind::Append => a.checked_append(b, arena),
                Kind::Prepend => a.checked_prepend(b, arena),
                Kind::After => a.checked_insert_after(b, arena),
                Kind::Before => a.checked_insert_before(b, arena),
            }
        } else {
            match kind {
                Kind::Append => a.append(b, arena),
                Kind::Prepend => a.prepend(b, arena),
                Kind::After => a.insert_after(b, arena),
                Kind::Before => a.insert_before(b, arena),
            }
            Ok(())
        }
    });
    match r {
        Ok(Ok(())) => Raw {
            class: Class::Ok,
            text: String::new(),
            ids: vec![],
        },
        Ok(Err(e)) => Raw {
            class: Class::Err,
            // Debug name of the variant, then its Display text
            text: format!("{:?}|{}", e, e),
            ids: vec![],
        },
        Err(p) => Raw {
            class: Class::Panic,
            text: p,
            ids: vec![],
        },
    }
}

fn raw_ok(ids: Vec<NodeId>) -> Raw {
    Raw {
        class: Class::Ok,
        text: String::new(),
        ids,
    }
}
fn raw_from<R>(r: Result<R, String>, f: impl FnOnce(R) -> Vec<NodeId>) -> Raw {
    match r {
        Ok(v) => raw_ok(f(v)),
        Err(p) => Raw {
            class: Class::Panic,
            text: p,
            ids: vec![],
        },
    }
}

impl<T: Payload> World<T> {
    pub fn new(cfg: ExecCfg) -> (World<T>, Vec<Viol>) {
        let mut viols = Vec::new();
        let arena: Arena<T> = if cfg.capacity == 0 {
            Arena::new()
        } else {
            Arena::with_capacity(cfg.capacity as usize)
        };
        if arena.capacity() < cfg.capacity as usize {
            viols.push(viol(
                "C13",
                "with_capacity_too_small",
                format!("with_capacity({}) gave capacity {}", cfg.capacity, arena.capacity()),
            ));
        }
        if !arena.is_empty() || arena.count() != 0 {
            viols.push(viol("C13", "new_arena_not_empty", ""));
        }
        let shadow = if cfg.twin {
            Some((Arena::new(), ShadowKind::Replay))
        } else {
            None
        };
        (
            World {
                arena,
                shadow,
                frozen: None,
                spare: None,
                m: Model::new(),
                cfg,
                step_no: 0,
                stats: Stats::default(),
                log: Fnv::new(),
                diverged: false,
                stop_clean: false,
                blind: false,
                deep_c06: false,
                since_reject: None,
                since_panic: None,
            },
            viols,
        )
    }

    fn idk(&self, k: Key) -> NodeId {
        self.m.id(k)
    }

    /// Is the op executable in the current model state? (otherwise it is skipped)
    pub fn applicable(&self, op: &Op) -> bool {
        let m = &self.m;
        let fresh = |k: &Key| !m.used_keys.contains(k);
        match op {
            Op::New { k, .. } => fresh(k),
            Op::AppendValue { p, k, .. } => m.known(*p) && fresh(k),
            Op::Insert { a, b, .. } => m.known(*a) && m.known(*b),
            Op::Detach { x } | Op::Remove { x } | Op::RemoveSubtree { x } => m.is_live(*x),
            Op::SetPayload { x, .. } => m.is_live(*x),
            Op::Reserve { .. } => true,
            Op::CycleSlot { x, k, n, .. } => m.is_live(*x) && fresh(k) && *n >= 1,
            Op::TreeMacro { shape, root, kbase, .. } => {
                let cnt = crate::treemacro::shape_nodes(*shape) + if root.is_none() { 1 } else { 0 };
                root.map_or(true, |r| m.known(r)) && (0..cnt as u32).all(|i| fresh(&(kbase + i)))
            }
            Op::RestartClone | Op::RestartSerde { .. } | Op::Clear | Op::CloneFrom => self.frozen.is_none(),
            Op::SaveSpare | Op::ObsCapacity { .. } => true,
            Op::StaleInsert { a, slot, ord, .. } => {
                m.is_live(*a)
                    && self.frozen.is_none()
                    && m.issued.get(*slot as usize - 1).is_some_and(|h| (*ord as usize) + 1 < h.len())
                    && m.slot_key[*slot as usize - 1].is_some()
            }
            Op::Fork { k, .. } => self.frozen.is_none() && *k >= 1,
            Op::ObsTraverse | Op::ObsLookup | Op::Drain | Op::ObsPar { .. } => true,
            Op::ObsPull { x, .. } | Op::ObsPrint { x, .. } => m.is_live(*x),
        }
    }

    // -----------------------------------------------------------------------------------------
    // the step function

    pub fn step(&mut self, op: &Op) -> StepOut {
        let mut out = StepOut {
            skipped: false,
            viols: Vec::new(),
            class: Class::Ok,
            rel: Rel::NA,
        };
        if self.blind {
            return self.step_blind(op);
        }
        if !self.applicable(op) {
            out.skipped = true;
            self.stats.skipped += 1;
            return out;
        }
        self.step_no += 1;
        self.stats.steps += 1;
        let shape_before = self.m.shape_hash();
        let state_changing;
        match op {
            Op::ObsTraverse => {
                state_changing = false;
                self.obs_traverse(&mut out.viols);
            }
            Op::ObsPull { x, it, word } => {
                state_changing = false;
                self.obs_pull(*x, *it, word, &mut out.viols);
            }
            Op::ObsLookup => {
                state_changing = false;
                self.obs_lookup(&mut out.viols);
            }
            Op::ObsPrint {
                x,
                mode,
                frag,
                sink_fail,
            } => {
                state_changing = false;
                self.obs_print(*x, *mode, *frag, *sink_fail, &mut out.viols);
            }
            Op::Drain => {
                state_changing = false;
                self.obs_drain(&mut out.viols);
            }
            Op::ObsPar { threads } => {
                state_changing = false;
                self.obs_par(*threads, &mut out.viols);
            }
            Op::ObsCapacity { n, ty } => {
                state_changing = false;
                self.obs_capacity(*n, *ty, &mut out.viols);
            }
            _ => {
                state_changing = true;
                self.mutate(op, &mut out);
            }
        }
        // ---- event log
        self.log.str(op.name());
        self.log.u8(out.class as u8);
        if state_changing {
            // invariants and refinement after every step, including refused and panicked ones
            // did the call itself leave the model behind (wrong outcome class, illegal allocation)?
            let model_in_step = !self.diverged;
            let before = out.viols.len();
            self.check_invariants(&mut out.viols);
            let inv_ok = out.viols.len() == before;
            if !inv_ok {
                // a malformed or cyclic forest: no further call is issued on this arena
                self.diverged = true;
            }
            if model_in_step {
                // refinement is evaluated whether or not the structural invariants hold: a call
                // that corrupts the forest also fails to do what its own property documents
                let b2 = out.viols.len();
                self.cmp_forest(op, out.class, &mut out.viols);
                if out.viols.len() != b2 {
                    // the real state is not the one the model is in: the model cannot go on
                    self.diverged = true;
                }
            }
            // the per-id and per-tombstone oracles rely on the model's view of which slot holds what:
            // they are evaluated only while the refinement above agrees
            if model_in_step && inv_ok && !self.diverged {
                self.check_tombs(&mut out.viols);
                self.check_c06(&mut out.viols);
                self.check_ledger_live(&mut out.viols);
            }
            if inv_ok && !self.diverged && self.cfg.dense_reads && self.m.n_live <= 24 {
                self.obs_traverse(&mut out.viols);
                self.obs_lookup(&mut out.viols);
            }
            self.fork_tick(&mut out.viols);
            let d = self.state_digest();
            self.log.u64(d);
            // reach accounting
            let t = (shape_before, op.name(), out.rel, out.class as u8);
            let mut h = Fnv::new();
            h.u64(t.0);
            h.str(t.1);
            h.u8(t.2 as u8);
            h.u8(t.3);
            self.stats.distinct.insert(h.0);
            self.stats.states.insert(self.m.shape_hash());
            *self
                .stats
                .ops
                .entry((op.name(), out.rel.name(), out.class.name()))
                .or_insert(0) += 1;
            match out.class {
                Class::Err => {
                    self.stats.fault("F-reject");
                    self.since_reject = Some(0);
                }
                Class::Panic => {
                    self.stats.fault("F-panic");
                    self.since_panic = Some(0);
                }
                Class::Ok => {
                    if let Some(n) = self.since_reject.as_mut() {
                        *n += 1;
                        if *n == 5 {
                            self.stats.probe("refused_call_followed_by_5_ops");
                        }
                    }
                    if let Some(n) = self.since_panic.as_mut() {
                        *n += 1;
                        if *n == 5 {
                            self.stats.probe("panic_followed_by_5_ops");
                        }
                    }
                }
            }
            if self.m.chains.values().any(|c| c.len() >= 3) {
                self.stats.probe("toplevel_chain_len_ge_3");
            }
            if self.m.n_live >= 100 && self.step_no % 16 == 0 {
                self.scale_probes();
            }
        } else {
            *self
                .stats
                .ops
                .entry((op.name(), "-", if out.viols.is_empty() { "ok" } else { "viol" }))
                .or_insert(0) += 1;
        }
        out
    }

    /// Blind continuation: execute the op on the real arena if all of its ids are live there
    /// (a valid call whatever the model believes), judge nothing about its outcome, keep the
    /// model going on a best-effort basis (it only serves to pick arguments), and evaluate the
    /// model-free invariants of C01 / C02 on the surviving arena.
    fn step_blind(&mut self, op: &Op) -> StepOut {
        let mut out = StepOut {
            skipped: true,
            viols: Vec::new(),
            class: Class::Ok,
            rel: Rel::NA,
        };
        let real_live = |w: &World<T>, k: Key| -> Option<NodeId> {
            let n = w.m.nodes.get(&k)?;
            let id = n.id;
            let slot = NonZeroUsize::new(slot_of(id))?;
            if n.live && w.arena.get_node_id_at(slot) == Some(id) {
                Some(id)
            } else {
                None
            }
        };
        let fresh = |w: &World<T>, k: Key| !w.m.used_keys.contains(&k);
        enum B {
            New(Key, u32),
            AppendValue(Key, NodeId, Key, u32),
            Insert(Kind, bool, Key, NodeId, Key, NodeId),
            Detach(Key, NodeId),
            Remove(Key, NodeId),
            RemoveSubtree(Key, NodeId),
        }
        let b = match op {
            Op::New { k, val } if fresh(self, *k) => B::New(*k, *val),
            Op::AppendValue { p, k, val, .. } if fresh(self, *k) => match real_live(self, *p) {
                Some(pid) => B::AppendValue(*p, pid, *k, *val),
                None => return out,
            },
            Op::Insert { kind, checked, a, b } => match (real_live(self, *a), real_live(self, *b)) {
                (Some(ia), Some(ib)) => B::Insert(*kind, *checked, *a, ia, *b, ib),
                _ => return out,
            },
            Op::Detach { x } => match real_live(self, *x) {
                Some(i) => B::Detach(*x, i),
                None => return out,
            },
            Op::Remove { x } => match real_live(self, *x) {
                Some(i) => B::Remove(*x, i),
                None => return out,
            },
            Op::RemoveSubtree { x } => match real_live(self, *x) {
                Some(i) => B::RemoveSubtree(*x, i),
                None => return out,
            },
            Op::ObsPull { x, it, word } => {
                // C10 is model-free: pull schedules on any node that is live in the real arena
                if real_live(self, *x).is_some() {
                    out.skipped = false;
                    self.step_no += 1;
                    self.stats.steps += 1;
                    self.stats.probe("blind_step");
                    self.obs_pull(*x, *it, word, &mut out.viols);
                }
                return out;
            }
            _ => return out,
        };
        out.skipped = false;
        self.step_no += 1;
        self.stats.steps += 1;
        self.stats.probe("blind_step");
        // the model transitions may meet states they cannot interpret: any panic there ends the run
        let step_no = self.step_no;
        let ok = catch(|| match b {
            B::New(k, val) => {
                let id = self.arena.new_node(T::make(val));
                let slot = slot_of(id);
                if slot <= self.m.slot_key.len() + 1 && !self.m.issued_set.contains(&id) {
                    if slot <= self.m.slot_key.len() {
                        if let Some(occ) = self.m.slot_key[slot - 1] {
                            if self.m.is_live(occ) {
                                // the model thought the slot was occupied: forget that node
                                if !self.m.nodes[&occ].kids.is_empty() {
                                    return false;
                                }
                                self.m.remove(occ);
                            }
                        }
                        self.m.free.insert(slot);
                    }
                    self.m.adopt_alloc(k, id, val, None, step_no);
                    true
                } else {
                    false
                }
            }
            B::AppendValue(p, pid, k, val) => {
                let r = catch(|| pid.append_value(T::make(val), &mut self.arena));
                match r {
                    Ok(id) => {
                        let slot = slot_of(id);
                        if slot > self.m.slot_key.len() + 1 || self.m.issued_set.contains(&id) {
                            return false;
                        }
                        if slot <= self.m.slot_key.len() {
                            if let Some(occ) = self.m.slot_key[slot - 1] {
                                if self.m.is_live(occ) {
                                    return false;
                                }
                            }
                            self.m.free.insert(slot);
                        }
                        self.m.adopt_alloc(k, id, val, None, step_no);
                        self.m.attach_child(p, k, false);
                        true
                    }
                    Err(_) => true,
                }
            }
            B::Insert(kind, checked, a, ia, b_, ib) => {
                let (impossible, _) = self.predict_insert(a, b_);
                let raw = raw_insert(&mut self.arena, kind, checked, ia, ib);
                out.class = raw.class;
                if raw.class == Class::Ok && !impossible {
                    self.model_insert(kind, a, b_);
                }
                true
            }
            B::Detach(x, i) => {
                if catch(|| i.detach(&mut self.arena)).is_ok() {
                    self.m.detach(x);
                }
                true
            }
            B::Remove(x, i) => {
                if catch(|| i.remove(&mut self.arena)).is_ok() {
                    self.m.remove(x);
                }
                true
            }
            B::RemoveSubtree(x, i) => {
                if catch(|| i.remove_subtree(&mut self.arena)).is_ok() {
                    self.m.remove_subtree(x);
                }
                true
            }
        });
        self.log.str(op.name());
        match ok {
            Ok(true) => {}
            _ => {
                // nothing more can be learnt from this run
                self.blind = false;
                self.diverged = true;
                return out;
            }
        }
        self.check_invariants(&mut out.viols);
        if out.viols.iter().any(|v| v.prop == "C02") {
            // a cycle: no further call is issued on this arena (library loops would not return)
            self.blind = false;
            self.diverged = true;
        }
        out
    }

    /// canonical digest of the observable state through the public API only
    pub fn state_digest(&self) -> u64 {
        self.digest_of(&self.arena)
    }

    pub fn digest_of(&self, arena: &Arena<T>) -> u64 {
        // reading a payload can panic on an arena that a defect has damaged ("freed node"):
        // the digest then is a sentinel, the oracles report the damage
        catch(|| self.digest_of_inner(arena)).unwrap_or(0xdead_beef)
    }

    fn digest_of_inner(&self, arena: &Arena<T>) -> u64 {
        let mut h = Fnv::new();
        let count = arena.count();
        h.u64(count as u64);
        for i in 1..=count {
            let nz = std::num::NonZeroUsize::new(i).unwrap();
            match arena.get_node_id_at(nz) {
                Some(id) => {
                    h.u8(1);
                    for l in links_of(arena, id) {
                        match l {
                            None => h.u8(0),
                            Some(y) => {
                                h.u8(1);
                                h.u64(slot_of(y) as u64);
                                h.u64(self.ordinal(y));
                            }
                        }
                    }
                    let node = &arena[id];
                    if !node.is_removed() {
                        h.str(&node.get().canon());
                    }
                    h.str(&id.to_string());
                }
                None => h.u8(0),
            }
        }
        h.0
    }

    /// generation ordinal of an id within its slot, from the ledger of issued ids (never from the
    /// stamp's encoding); 0 if unknown
    fn ordinal(&self, id: NodeId) -> u64 {
        let s = slot_of(id);
        match self.m.issued.get(s - 1) {
            Some(v) => {
                if v.last() == Some(&id) {
                    v.len() as u64
                } else {
                    v.iter().rposition(|x| *x == id).map_or(0, |p| p as u64 + 1)
                }
            }
            None => 0,
        }
    }

    // -----------------------------------------------------------------------------------------
    // mutating ops

    pub fn unexpected_panic(&mut self, owner: &'static str, what: &str, msg: &str, out: &mut StepOut) {
        out.class = Class::Panic;
        out.viols.push(viol(
            "C05",
            "panic_in_valid_call",
            format!("{} panicked: {}", what, trunc(msg, 200)),
        ));
        if owner != "C05" {
            out.viols.push(viol(
                owner,
                "panic_in_valid_call",
                format!("{} panicked: {}", what, trunc(msg, 200)),
            ));
        }
        self.diverged = true;
    }

    /// Validate a real allocation against the free *set* and adopt it. Returns false if the
    /// allocation is illegal (the run cannot continue).
    pub fn check_alloc(
        &mut self,
        k: Key,
        id: NodeId,
        val: u32,
        count_before: usize,
        viols: &mut Vec<Viol>,
    ) -> bool {
        let count_after = self.arena.count();
        self.check_alloc_at(k, id, val, count_before, count_after, viols)
    }

    pub fn check_alloc_at(
        &mut self,
        k: Key,
        id: NodeId,
        val: u32,
        count_before: usize,
        count_after: usize,
        viols: &mut Vec<Viol>,
    ) -> bool {
        let slot = slot_of(id);
        let known = self.m.slot_key.len();
        let free_eff = self.m.free_effective();
        let mut ok = true;
        if self.m.issued_set.contains(&id) {
            viols.push(viol(
                "C06",
                "id_reissued",
                format!(
                    "allocation returned an id (slot {}) that was already issued earlier (recycle #{} of the slot)",
                    slot,
                    self.m.recycles.get(slot - 1).copied().unwrap_or(0) + 1
                ),
            ));
            ok = false;
        }
        if slot >= 1 && slot <= known {
            match self.m.slot_key[slot - 1] {
                Some(occ) if self.m.is_live(occ) => {
                    viols.push(viol(
                        "C07",
                        "occupied_slot_handed_out",
                        format!("allocation returned slot {} which holds live key {}", slot, occ),
                    ));
                    self.diverged = true;
            return false;
                }
                _ => {}
            }
            if !self.m.free.contains(&slot) {
                viols.push(viol(
                    "C07",
                    "slot_not_free",
                    format!("allocation returned slot {} which is not in the free set", slot),
                ));
                self.diverged = true;
            return false;
            }
            if self.m.retired.contains(&slot) {
                // the model only *inferred* retirement; a slot that comes back was merely withheld
                viols.push(viol(
                    "C07",
                    "slot_withheld_then_reused",
                    format!("slot {} was not offered while free and is handed out later", slot),
                ));
                self.diverged = true;
            return false;
            }
            if count_after != count_before {
                viols.push(viol(
                    "C07",
                    "count_changed_on_recycle",
                    format!("count {} -> {} although slot {} was recycled", count_before, count_after, slot),
                ));
                ok = false;
            }
            match free_eff.len() {
                0 => {}
                1 => self.stats.probe("alloc_with_free_set_size_1"),
                _ => self.stats.probe("alloc_with_free_set_size_ge_2"),
            }
        } else if slot == known + 1 {
            if count_after != count_before + 1 || count_after != slot {
                viols.push(viol(
                    "C07",
                    "bad_growth",
                    format!("count {} -> {} with new slot {}", count_before, count_after, slot),
                ));
                ok = false;
            }
            if !free_eff.is_empty() {
                let not_eligible: Vec<usize> = free_eff
                    .iter()
                    .copied()
                    .filter(|s| !self.m.retire_eligible(*s))
                    .collect();
                if not_eligible.is_empty() {
                    for s in free_eff {
                        self.m.retired.insert(s);
                        self.stats.probe("slot_retired");
                    }
                } else {
                    viols.push(viol(
                        "C07",
                        "grew_while_slot_free",
                        format!(
                            "arena grew to {} although removed slots {:?} are available",
                            count_after, not_eligible
                        ),
                    ));
                    ok = false;
                }
            } else {
                self.stats.probe("alloc_with_free_set_size_0");
            }
        } else {
            viols.push(viol(
                "C07",
                "slot_out_of_sequence",
                format!("allocation returned slot {} with {} slots known", slot, known),
            ));
            self.diverged = true;
            return false;
        }
        if !ok {
            self.diverged = true;
            return false;
        }
        let arena = &self.arena;
        let serial = catch(|| {
            arena.get(id).and_then(|n| {
                if n.is_removed() {
                    None
                } else {
                    n.get().serial()
                }
            })
        })
        .unwrap_or(None);
        self.m.adopt_alloc(k, id, val, serial, self.step_no);
        // C11 at the moment of issue (liveness is beyond doubt here): the id just returned
        // resolves, and its position resolves back to it
        let arena = &self.arena;
        let agree = catch(|| {
            let pos = NonZeroUsize::new(slot_of(id)).unwrap();
            let a = arena.get_node_id_at(pos) == Some(id);
            let b = arena.get(id).is_some_and(|n| !n.is_removed() && arena.get_node_id(n) == Some(id));
            let c = !id.is_removed(arena);
            (a, b, c)
        });
        match agree {
            Ok((true, true, true)) => {}
            Ok((a, b, c)) => {
                viols.push(viol(
                    "C11",
                    "fresh_id_lookup_disagrees",
                    format!(
                        "id just returned for position {}: get_node_id_at gives it back: {}, get/get_node_id agree: {}, not removed: {}",
                        slot_of(id),
                        a,
                        b,
                        c
                    ),
                ));
            }
            Err(p) => viols.push(viol("C11", "panic_in_lookup", p)),
        }
        true
    }

    fn predict_insert(&self, a: Key, b: Key) -> (bool, [bool; 3]) {
        let m = &self.m;
        let same = a == b;
        let removed = m.is_tomb(a) || m.is_tomb(b);
        let anc = !same && !removed && m.is_proper_ancestor(b, a);
        (same || removed || anc, [same, removed, anc])
    }

    fn model_insert(&mut self, kind: Kind, a: Key, b: Key) {
        match kind {
            Kind::Append => self.m.attach_child(a, b, false),
            Kind::Prepend => self.m.attach_child(a, b, true),
            Kind::After => self.m.insert_sibling(a, b, true),
            Kind::Before => self.m.insert_sibling(a, b, false),
        }
    }

    /// expected drops in the ledger window of one real call
    fn check_window(
        &mut self,
        mark: usize,
        must: &[Option<u64>],
        may: &[Option<u64>],
        what: &str,
        viols: &mut Vec<Viol>,
    ) {
        if T::NAME != "tracked" {
            return;
        }
        let got = payload::ledger_since(mark);
        let must: BTreeSet<u64> = must.iter().flatten().copied().collect();
        let may: BTreeSet<u64> = may.iter().flatten().copied().collect();
        let gotset: BTreeSet<u64> = got.iter().copied().collect();
        if gotset.len() != got.len() {
            viols.push(viol("C08", "payload_dropped_twice", format!("during {}: {:?}", what, got)));
        }
        for s in &must {
            if !gotset.contains(s) {
                viols.push(viol(
                    "C08",
                    "payload_not_dropped_on_removal",
                    format!("{}: payload serial {} of a node that died was not dropped", what, s),
                ));
            }
        }
        for s in &gotset {
            if !must.contains(s) && !may.contains(s) {
                viols.push(viol(
                    "C08",
                    "unexpected_payload_drop",
                    format!("{}: payload serial {} was dropped although its node did not die", what, s),
                ));
            }
        }
    }

    pub fn apply_shadow(&mut self, f: impl FnOnce(&mut Arena<T>) -> Raw, main: &Raw, what: &str, viols: &mut Vec<Viol>) {
        if let Some((sh, kind)) = self.shadow.as_mut() {
            let r = f(sh);
            let prop = kind.prop();
            if r.class != main.class || r.ids != main.ids {
                viols.push(viol(
                    prop,
                    "twin_result_differs",
                    format!(
                        "{}: arena gave {:?}/{} ids {:?}, its twin ({:?}) gave {:?}/{} ids {:?}",
                        what,
                        main.class,
                        trunc(&main.text, 60),
                        main.ids.iter().map(|i| slot_of(*i)).collect::<Vec<_>>(),
                        kind,
                        r.class,
                        trunc(&r.text, 60),
                        r.ids.iter().map(|i| slot_of(*i)).collect::<Vec<_>>()
                    ),
                ));
            } else if *sh != self.arena {
                viols.push(viol(
                    prop,
                    "twin_arena_differs",
                    format!("{}: arena != its twin ({:?}) after the same call", what, kind),
                ));
            }
        }
        // a twin that has gone out of step is reported once and then dropped
        if viols.iter().any(|v| v.kind == "twin_result_differs" || v.kind == "twin_arena_differs") {
            self.shadow = None;
        }
    }

    pub fn mutate(&mut self, op: &Op, out: &mut StepOut) {
        match op {
            Op::New { k, val } => {
                let cb = self.arena.count();
                let mark = payload::ledger_mark();
                let r = catch(|| self.arena.new_node(T::make(*val)));
                match r {
                    Ok(id) => {
                        self.check_window(mark, &[], &[], "new_node", &mut out.viols);
                        self.check_alloc(*k, id, *val, cb, &mut out.viols);
                        let raw = raw_ok(vec![id]);
                        let v = *val;
                        self.apply_shadow(
                            |sh| raw_from(catch(|| sh.new_node(T::make(v))), |i| vec![i]),
                            &raw,
                            "new_node",
                            &mut out.viols,
                        );
                    }
                    Err(p) => self.unexpected_panic("C07", "new_node", &p, out),
                }
            }
            Op::AppendValue { p, k, val, slow } => self.do_append_value(*p, *k, *val, *slow, out),
            Op::Insert { kind, checked, a, b } => self.do_insert(*kind, *checked, *a, *b, out),
            Op::Detach { x } => {
                let id = self.idk(*x);
                let mark = payload::ledger_mark();
                let r = catch(|| id.detach(&mut self.arena));
                match r {
                    Ok(()) => {
                        self.check_window(mark, &[], &[], "detach", &mut out.viols);
                        self.m.detach(*x);
                        self.apply_shadow(
                            |sh| raw_from(catch(|| id.detach(sh)), |_| vec![]),
                            &raw_ok(vec![]),
                            "detach",
                            &mut out.viols,
                        );
                    }
                    Err(p) => self.unexpected_panic("C03", "detach", &p, out),
                }
            }
            Op::Remove { x } => {
                let id = self.idk(*x);
                let serial = self.m.n(*x).serial;
                if !self.m.n(*x).kids.is_empty() && self.m.parent(*x).is_none() {
                    self.stats.probe("remove_toplevel_with_children");
                }
                if self.m.n(*x).kids.len() >= 128 {
                    self.stats.probe("scale_remove_node_with_ge_128_children");
                }
                let mark = payload::ledger_mark();
                let r = catch(|| id.remove(&mut self.arena));
                match r {
                    Ok(()) => {
                        self.check_window(mark, &[serial], &[], "remove", &mut out.viols);
                        self.m.remove(*x);
                        self.check_removed_position(id, &mut out.viols);
                        self.apply_shadow(
                            |sh| raw_from(catch(|| id.remove(sh)), |_| vec![]),
                            &raw_ok(vec![]),
                            "remove",
                            &mut out.viols,
                        );
                    }
                    Err(p) => self.unexpected_panic("C04", "remove", &p, out),
                }
            }
            Op::RemoveSubtree { x } => {
                let id = self.idk(*x);
                let sub = self.m.subtree(*x);
                if sub.len() >= 3 {
                    self.stats.probe("remove_subtree_ge_3_nodes");
                }
                if sub.len() >= 130 {
                    self.stats.probe("scale_remove_subtree_ge_130_nodes");
                }
                let serials: Vec<Option<u64>> = sub.iter().map(|k| self.m.n(*k).serial).collect();
                let mark = payload::ledger_mark();
                let r = catch(|| id.remove_subtree(&mut self.arena));
                match r {
                    Ok(()) => {
                        self.check_window(mark, &serials, &[], "remove_subtree", &mut out.viols);
                        self.m.remove_subtree(*x);
                        self.apply_shadow(
                            |sh| raw_from(catch(|| id.remove_subtree(sh)), |_| vec![]),
                            &raw_ok(vec![]),
                            "remove_subtree",
                            &mut out.viols,
                        );
                    }
                    Err(p) => self.unexpected_panic("C04", "remove_subtree", &p, out),
                }
            }
            Op::SetPayload { x, val, via } => {
                let id = self.idk(*x);
                let old = self.m.n(*x).serial;
                let slot = self.m.n(*x).slot;
                let mark = payload::ledger_mark();
                let (v, via) = (*val, *via);
                let write = move |a: &mut Arena<T>| match via % 3 {
                    0 => *a.get_mut(id).unwrap().get_mut() = T::make(v),
                    1 => *a[id].get_mut() = T::make(v),
                    _ => *a.iter_mut().nth(slot - 1).unwrap().get_mut() = T::make(v),
                };
                let r = catch(|| write(&mut self.arena));
                match r {
                    Ok(()) => {
                        self.check_window(mark, &[old], &[], "payload write", &mut out.viols);
                        let serial = self.arena[id].get().serial();
                        let n = self.m.nodes.get_mut(x).unwrap();
                        n.val = *val;
                        n.serial = serial;
                        self.apply_shadow(
                            |sh| raw_from(catch(|| write(sh)), |_| vec![]),
                            &raw_ok(vec![]),
                            "payload write",
                            &mut out.viols,
                        );
                    }
                    Err(p) => self.unexpected_panic("C08", "payload write", &p, out),
                }
            }
            Op::Reserve { n } => {
                let before = self.arena.clone();
                let obs = self.state_digest();
                // encodings: u32::MAX = usize::MAX (documented panic: capacity overflow);
                // 1_000_000 + d = exactly the spare capacity plus d (the boundary of "already enough")
                let spare = self.arena.capacity().saturating_sub(self.arena.count());
                let k: usize = match *n {
                    u32::MAX => usize::MAX,
                    // (each such request doubles the capacity: no more of them once it is large)
                    x if x >= 1_000_000 && spare <= 50_000 => spare + (x - 1_000_000) as usize,
                    x if x >= 1_000_000 => 1,
                    x => x as usize,
                };
                let n = &k;
                let r = catch(|| self.arena.reserve(k));
                if k == usize::MAX {
                    self.stats.probe("reserve_usize_max");
                    out.class = if r.is_ok() { Class::Ok } else { Class::Panic };
                    if r.is_ok() {
                        out.viols.push(viol("C13", "reserve_too_small", "reserve(usize::MAX) returned although no such room can exist (documented: panics)"));
                    }
                    if self.arena != before || self.state_digest() != obs {
                        out.viols.push(viol("C13", "reserve_changed_arena", "reserve(usize::MAX)"));
                    }
                    return;
                }
                match r {
                    Ok(()) => {
                        if self.arena.capacity() < self.arena.count() + *n as usize {
                            out.viols.push(viol(
                                "C13",
                                "reserve_too_small",
                                format!(
                                    "reserve({}) at count {} gave capacity {}",
                                    n,
                                    self.arena.count(),
                                    self.arena.capacity()
                                ),
                            ));
                        }
                        if self.arena != before || self.state_digest() != obs {
                            out.viols.push(viol("C13", "reserve_changed_arena", format!("reserve({})", n)));
                        }
                        // the twin never reserves: it must still return the same ids afterwards
                    }
                    Err(p) => self.unexpected_panic("C13", "reserve", &p, out),
                }
            }
            Op::CycleSlot { x, n, k, val } => self.do_cycle(*x, *n, *k, *val, out),
            Op::TreeMacro { shape, root, kbase, val } => self.do_tree_macro(*shape, *root, *kbase, *val, out),
            Op::RestartClone => {
                self.stats.fault("R-clone");
                let r = catch(|| self.arena.clone());
                match r {
                    Ok(b) => {
                        if b != self.arena || self.digest_of(&b) != self.state_digest() {
                            out.viols.push(viol("C13", "clone_not_equal", "a.clone() != a"));
                        }
                        if !self.m.free.is_empty() {
                            self.stats.probe("restart_with_nonempty_free_set");
                        }
                        let live_serials: Vec<Option<u64>> = self
                            .m
                            .nodes
                            .values()
                            .filter(|n| n.live)
                            .map(|n| n.serial)
                            .collect();
                        let mark = payload::ledger_mark();
                        let old = std::mem::replace(&mut self.arena, b);
                        drop(old);
                        self.check_window(mark, &live_serials, &[], "drop of the original arena", &mut out.viols);
                        self.resync_serials();
                        self.obs_lookup(&mut out.viols);
                    }
                    Err(p) => self.unexpected_panic("C13", "clone", &p, out),
                }
            }
            Op::StaleInsert { kind, checked, a, slot, ord, recv } => {
                let ida = self.idk(*a);
                let stale = self.m.issued[*slot as usize - 1][*ord as usize];
                let raw = if *recv {
                    raw_insert(&mut self.arena, *kind, *checked, stale, ida)
                } else {
                    raw_insert(&mut self.arena, *kind, *checked, ida, stale)
                };
                out.class = raw.class;
                if raw.class == Class::Err {
                    self.log.str(&raw.text);
                }
                self.stats.probe("stale_id_insert_logged");
                // nothing is judged; the model cannot follow: the run ends after this step
                self.diverged = true;
                self.stop_clean = true;
            }
            Op::SaveSpare => {
                if let Ok(c) = catch(|| self.arena.clone()) {
                    self.spare = Some(c);
                }
            }
            Op::CloneFrom => {
                let Some(mut b) = self.spare.take() else {
                    self.mutate(&Op::RestartClone, out);
                    return;
                };
                self.stats.fault("R-clone-from");
                if b.count() > 0 {
                    self.stats.probe("clone_from_into_used_arena");
                }
                let arena = &self.arena;
                match catch(|| b.clone_from(arena)) {
                    Ok(()) => {
                        if b != self.arena || self.digest_of(&b) != self.state_digest() {
                            out.viols.push(viol("C13", "clone_not_equal", "after b.clone_from(&a): b != a"));
                        }
                        let live_serials: Vec<Option<u64>> = self.m.nodes.values().filter(|n| n.live).map(|n| n.serial).collect();
                        let mark = payload::ledger_mark();
                        let old = std::mem::replace(&mut self.arena, b);
                        drop(old);
                        self.check_window(mark, &live_serials, &[], "drop of the original arena", &mut out.viols);
                        self.resync_serials();
                        // every id issued by the original must address the same node in the copy
                        self.obs_lookup(&mut out.viols);
                    }
                    Err(p) => self.unexpected_panic("C13", "clone_from", &p, out),
                }
            }
            Op::RestartSerde { fmt, io } => self.do_restart_serde(*fmt, *io, out),
            Op::Fork { k, swap } => {
                self.stats.fault("R-fork");
                let frozen = self.arena.clone();
                if frozen != self.arena {
                    out.viols.push(viol("C13", "clone_not_equal", "a.clone() != a (fork)"));
                }
                let fshadow = self.shadow.as_ref().map(|(a, k)| (a.clone(), *k));
                let mut fm = self.m.clone();
                for n in fm.nodes.values_mut() {
                    if n.live {
                        n.serial = frozen[n.id].get().serial();
                    }
                }
                let obs = self.digest_plain(&frozen);
                self.frozen = Some(Frozen {
                    arena: frozen,
                    shadow: fshadow,
                    model: fm,
                    obs,
                    left: *k + 1, // this step's fork_tick decrements once
                    swap: *swap,
                });
            }
            Op::Clear => {
                self.stats.fault("R-clear");
                let cap = self.arena.capacity();
                let live_serials: Vec<Option<u64>> = self
                    .m
                    .nodes
                    .values()
                    .filter(|n| n.live)
                    .map(|n| n.serial)
                    .collect();
                let mark = payload::ledger_mark();
                let r = catch(|| self.arena.clear());
                match r {
                    Ok(()) => {
                        self.check_window(mark, &live_serials, &[], "clear", &mut out.viols);
                        if !self.arena.is_empty() || self.arena.count() != 0 {
                            out.viols.push(viol("C13", "clear_not_empty", format!("count {}", self.arena.count())));
                        }
                        if self.arena != Arena::new() {
                            out.viols.push(viol("C13", "cleared_not_equal_new", "cleared arena != Arena::new()"));
                        }
                        if self.arena.capacity() < cap {
                            out.viols.push(viol(
                                "C13",
                                "clear_lost_capacity",
                                format!("capacity {} -> {}", cap, self.arena.capacity()),
                            ));
                        }
                        self.m.clear();
                        if self.cfg.twin || self.shadow.is_some() {
                            self.shadow = Some((Arena::new(), ShadowKind::Clear));
                        }
                    }
                    Err(p) => self.unexpected_panic("C13", "clear", &p, out),
                }
            }
            _ => unreachable!(),
        }
    }

    /// C11 at the moment of removal: the position of a node that was removed a moment ago
    /// resolves to no id.
    fn check_removed_position(&mut self, id: NodeId, viols: &mut Vec<Viol>) {
        let arena = &self.arena;
        let r = catch(|| arena.get_node_id_at(NonZeroUsize::new(slot_of(id)).unwrap()));
        match r {
            Ok(None) => {}
            Ok(Some(_)) => viols.push(viol(
                "C11",
                "get_node_id_at_removed",
                format!("position {} was removed a moment ago but get_node_id_at gives Some", slot_of(id)),
            )),
            Err(p) => viols.push(viol("C11", "panic_in_lookup", p)),
        }
    }

    fn scale_probes(&mut self) {
        let m = &self.m;
        let maxkids = m.nodes.values().filter(|n| n.live).map(|n| n.kids.len()).max().unwrap_or(0);
        let maxdepth = m.nodes.iter().filter(|(_, n)| n.live && n.kids.is_empty()).map(|(k, _)| m.depth(*k)).max().unwrap_or(0);
        let maxchain = m.chains.values().map(|c| c.len()).max().unwrap_or(0);
        let (nl, nf) = (m.n_live, m.free.len());
        if maxkids >= 128 {
            self.stats.probe("scale_node_with_ge_128_children");
        }
        if maxdepth >= 128 {
            self.stats.probe("scale_depth_ge_128");
        }
        if maxdepth >= 256 {
            self.stats.probe("scale_depth_ge_256");
        }
        if maxdepth >= 1025 {
            self.stats.probe("scale_depth_ge_1025");
        }
        if maxchain >= 32 {
            self.stats.probe("scale_toplevel_chain_ge_32");
        }
        if maxchain >= 66 {
            self.stats.probe("scale_toplevel_chain_ge_66");
        }
        if nl >= 200 {
            self.stats.probe("scale_live_ge_200");
        }
        if nf >= 64 {
            self.stats.probe("scale_free_set_ge_64");
        }
    }

    pub fn resync_serials(&mut self) {
        let arena = &self.arena;
        for n in self.m.nodes.values_mut() {
            if n.live {
                let id = n.id;
                n.serial = catch(|| {
                    arena.get(id).and_then(|x| {
                        if x.is_removed() {
                            None
                        } else {
                            x.get().serial()
                        }
                    })
                })
                .unwrap_or(None);
            }
        }
    }

    fn fork_tick(&mut self, viols: &mut Vec<Viol>) {
        let done = match self.frozen.as_mut() {
            Some(f) => {
                f.left -= 1;
                f.left == 0
            }
            None => false,
        };
        if !done {
            return;
        }
        let f = self.frozen.take().unwrap();
        if self.digest_plain(&f.arena) != f.obs {
            viols.push(viol(
                "C13",
                "clone_not_independent",
                "a clone changed while only its original was operated on",
            ));
        }
        if f.swap {
            // continue on the frozen side with its own model; the advanced side is dropped
            self.arena = f.arena;
            self.shadow = f.shadow;
            self.m = f.model;
            self.stats.probe("fork_continued_on_frozen_side");
        } else {
            self.stats.probe("fork_continued_on_advanced_side");
        }
    }

    pub fn digest_plain(&self, arena: &Arena<T>) -> u64 {
        catch(|| self.digest_plain_inner(arena)).unwrap_or(0xdead_beef)
    }

    fn digest_plain_inner(&self, arena: &Arena<T>) -> u64 {
        // ordinals come from self.m.issued; between fork and tick the frozen side's ids are a
        // subset of those known to self.m (ids are never forgotten within a fork window unless
        // the advanced side was cleared, in which case ordinals are 0 on both evaluations only if
        // evaluated at the same time) -> compute the frozen digest without ordinals.
        let mut h = Fnv::new();
        let count = arena.count();
        h.u64(count as u64);
        for i in 1..=count {
            let nz = std::num::NonZeroUsize::new(i).unwrap();
            match arena.get_node_id_at(nz) {
                Some(id) => {
                    h.u8(1);
                    for l in links_of(arena, id) {
                        match l {
                            None => h.u8(0),
                            Some(y) => {
                                h.u8(1);
                                h.u64(slot_of(y) as u64);
                            }
                        }
                    }
                    h.str(&arena[id].get().canon());
                }
                None => h.u8(0),
            }
        }
        h.0
    }

    fn do_append_value(&mut self, p: Key, k: Key, val: u32, slow: bool, out: &mut StepOut) {
        let mut pid = self.idk(p);
        let ptomb = self.m.is_tomb(p);
        if ptomb && p % 3 == 0 {
            // the removed parent named by the id that get_node_id builds from its slot
            let arena = &self.arena;
            if let Ok(Some(x)) = catch(|| arena.get(pid).and_then(|n| arena.get_node_id(n))) {
                if slot_of(x) == slot_of(pid) {
                    pid = x;
                    self.stats.probe("tombstone_named_via_get_node_id");
                }
            }
        }
        out.rel = if ptomb { Rel::TombA } else { Rel::NA };
        let cb = self.arena.count();
        let snapshot = self.arena.clone();
        let obs = self.state_digest();
        let fast = !slow || ptomb;
        let mark = payload::ledger_mark();
        let exec = move |a: &mut Arena<T>| -> Result<NodeId, String> {
            if fast {
                catch(|| pid.append_value(T::make(val), a))
            } else {
                catch(|| {
                    let c = a.new_node(T::make(val));
                    pid.append(c, a);
                    c
                })
            }
        };
        let r = exec(&mut self.arena);
        if ptomb {
            self.stats.probe("append_value_on_tombstone");
            match r {
                Err(_) => {
                    out.class = Class::Panic;
                    if self.arena != snapshot || self.state_digest() != obs {
                        out.viols.push(viol(
                            "C12",
                            "changed_after_refused_call",
                            format!(
                                "append_value on a removed parent panicked but changed the arena (count {} -> {})",
                                cb,
                                self.arena.count()
                            ),
                        ));
                        // a refused call that allocated: a removed slot was used up (or the arena
                        // grew) for a node nobody got - "no slot is lost" (C07)
                        out.viols.push(viol(
                            "C07",
                            "refused_call_allocated",
                            format!("append_value on a removed parent panicked after allocating (count {} -> {})", cb, self.arena.count()),
                        ));
                        self.diverged = true;
                    }
                    let raw = Raw {
                        class: Class::Panic,
                        text: String::new(),
                        ids: vec![],
                    };
                    self.apply_shadow(
                        |sh| match exec(sh) {
                            Ok(i) => raw_ok(vec![i]),
                            Err(_) => Raw {
                                class: Class::Panic,
                                text: String::new(),
                                ids: vec![],
                            },
                        },
                        &raw,
                        "append_value",
                        &mut out.viols,
                    );
                }
                Ok(_) => {
                    out.viols.push(viol(
                        "C12",
                        "insert_under_removed_accepted",
                        "append_value on a removed parent did not panic",
                    ));
                    self.diverged = true;
                }
            }
            return;
        }
        match r {
            Ok(id) => {
                self.check_window(mark, &[], &[], "append_value", &mut out.viols);
                if !self.check_alloc(k, id, val, cb, &mut out.viols) {
                    self.diverged = true;
                    return;
                }
                self.m.attach_child(p, k, false);
                if fast {
                    // C03: append_value(v) == new_node(v) followed by append
                    let mut twin = snapshot;
                    let r2 = catch(|| {
                        let c = twin.new_node(T::make(val));
                        pid.append(c, &mut twin);
                        c
                    });
                    match r2 {
                        Ok(c) if c == id && twin == self.arena => {}
                        Ok(_) => out.viols.push(viol(
                            "C03",
                            "append_value_differs_from_new_node_append",
                            "append_value(v) left an arena different from new_node(v) + append",
                        )),
                        Err(_) => { /* C05's business: append of a fresh node panicked */ }
                    }
                }
                let raw = raw_ok(vec![id]);
                self.apply_shadow(
                    |sh| match exec(sh) {
                        Ok(i) => raw_ok(vec![i]),
                        Err(p) => Raw {
                            class: Class::Panic,
                            text: p,
                            ids: vec![],
                        },
                    },
                    &raw,
                    "append_value",
                    &mut out.viols,
                );
            }
            Err(pmsg) => self.unexpected_panic("C03", "append_value", &pmsg, out),
        }
    }

    fn do_insert(&mut self, kind: Kind, checked: bool, a: Key, b: Key, out: &mut StepOut) {
        let (mut ida, mut idb) = (self.idk(a), self.idk(b));
        // A removed node can also be named by the id that `get_node_id` builds from a reference to
        // its slot (same position, the slot's current stamp): one tombstone key in three is
        // offered that way. The request is just as impossible.
        for (k, id) in [(a, &mut ida), (b, &mut idb)] {
            if self.m.is_tomb(k) && k % 3 == 0 {
                let arena = &self.arena;
                let cur = *id;
                if let Ok(Some(x)) = catch(|| arena.get(cur).and_then(|n| arena.get_node_id(n))) {
                    if slot_of(x) == slot_of(cur) {
                        *id = x;
                        self.stats.probe("tombstone_named_via_get_node_id");
                    }
                }
            }
        }
        let rel = classify(&self.m, a, b);
        out.rel = rel;
        let (impossible, reasons) = self.predict_insert(a, b);
        let tomb_involved = reasons[1];
        let snapshot = self.arena.clone();
        let obs = self.state_digest();
        let mark = payload::ledger_mark();
        let raw = raw_insert(&mut self.arena, kind, checked, ida, idb);
        out.class = raw.class;
        if raw.class == Class::Err {
            // the error is part of the event log (compared between builds of the same source)
            self.log.str(&raw.text);
        }
        let name = Op::Insert { kind, checked, a, b }.name();
        let what = format!("{}({})", name, rel.name());
        // reach probes
        if !impossible {
            if self.m.n(a).loc == self.m.n(b).loc {
                self.stats.probe("move_within_own_sibling_list");
            }
            if self.m.parent(a).is_none() && matches!(kind, Kind::After | Kind::Before) {
                self.stats.probe("toplevel_sibling_insert");
            }
            let recent = |k: Key| self.m.n(k).recycled && self.step_no - self.m.n(k).born <= 2;
            if recent(a) || recent(b) {
                self.stats.probe("op_on_slot_recycled_le_2_steps_ago");
            }
        }
        let push = |viols: &mut Vec<Viol>, kind_: &'static str, detail: String| {
            viols.push(viol("C05", kind_, detail.clone()));
            if tomb_involved {
                viols.push(viol("C12", kind_, detail));
            }
        };
        if impossible {
            let unchanged = self.arena == snapshot && self.state_digest() == obs;
            match (checked, raw.class) {
                (true, Class::Err) => {
                    let cls = err_class(&raw.text);
                    let applies = match cls {
                        "self" => reasons[0],
                        "removed" => reasons[1],
                        "ancestor" => reasons[2],
                        _ => false,
                    };
                    if !applies {
                        push(
                            &mut out.viols,
                            "reason_does_not_apply",
                            format!("{} returned Err({}) but that reason does not apply", what, raw.text),
                        );
                    }
                    if !unchanged {
                        push(
                            &mut out.viols,
                            "changed_after_refused_call",
                            format!("{} returned Err({}) but changed the arena", what, raw.text),
                        );
                        self.diverged = true;
                    }
                }
                (false, Class::Panic) => {
                    if !unchanged {
                        push(
                            &mut out.viols,
                            "changed_after_refused_call",
                            format!("{} panicked but changed the arena", what),
                        );
                        self.diverged = true;
                    }
                }
                (true, Class::Panic) => {
                    push(
                        &mut out.viols,
                        "checked_form_panicked",
                        format!("{} panicked instead of returning Err: {}", what, trunc(&raw.text, 160)),
                    );
                    self.diverged = true;
                }
                (_, Class::Ok) => {
                    push(
                        &mut out.viols,
                        "impossible_insert_accepted",
                        format!("{} succeeded although the request is impossible", what),
                    );
                    if reasons[2] {
                        out.viols.push(viol(
                            "C02",
                            "impossible_insert_accepted",
                            format!("{} succeeded: the moved node is an ancestor of the target", what),
                        ));
                    }
                    self.diverged = true;
                }
                (false, Class::Err) => unreachable!(),
            }
            self.check_window(mark, &[], &[], "refused insert", &mut out.viols);
        } else {
            match raw.class {
                Class::Ok => {
                    self.check_window(mark, &[], &[], "insert", &mut out.viols);
                    self.model_insert(kind, a, b);
                    if !checked {
                        // twin: checked form on the snapshot must give the same arena
                        let mut twin = snapshot;
                        let r2 = raw_insert(&mut twin, kind, true, ida, idb);
                        if r2.class != Class::Ok || twin != self.arena {
                            out.viols.push(viol(
                                "C05",
                                "unchecked_differs_from_checked",
                                format!("{}: checked form gave {:?}, arenas equal: {}", what, r2.class, twin == self.arena),
                            ));
                        }
                    }
                }
                Class::Err | Class::Panic => {
                    let kind_ = if raw.class == Class::Err {
                        "possible_insert_refused"
                    } else {
                        "possible_insert_panicked"
                    };
                    out.viols.push(viol(
                        "C05",
                        kind_,
                        format!("{} is possible but gave {:?}: {}", what, raw.class, trunc(&raw.text, 160)),
                    ));
                    // C03: re-inserting a node where it already is is a no-op that succeeds
                    out.viols.push(viol(
                        "C03",
                        kind_,
                        format!("{} is possible but gave {:?}: {}", what, raw.class, trunc(&raw.text, 160)),
                    ));
                    self.diverged = true;
                }
            }
        }
        if !self.diverged {
            self.apply_shadow(
                |sh| {
                    let mut r = raw_insert(sh, kind, checked, ida, idb);
                    r.text.clear();
                    r
                },
                &Raw {
                    class: raw.class,
                    text: String::new(),
                    ids: vec![],
                },
                name,
                &mut out.viols,
            );
        }
    }

    fn do_cycle(&mut self, x: Key, n: u32, k: Key, val: u32, out: &mut StepOut) {
        self.stats.fault("T-cycle");
        let start_id = self.idk(x);
        let mut cur = x;
        let mut last_id = start_id;
        for i in 0..n {
            let id = self.idk(cur);
            let serial = self.m.n(cur).serial;
            let mark = payload::ledger_mark();
            if let Err(p) = catch(|| id.remove(&mut self.arena)) {
                self.unexpected_panic("C04", "remove (cycle)", &p, out);
                return;
            }
            self.check_window(mark, &[serial], &[], "remove (cycle)", &mut out.viols);
            self.m.remove(cur);
            self.check_removed_position(id, &mut out.viols);
            match catch(|| id.is_removed(&self.arena)) {
                Ok(true) => {}
                Ok(false) => {
                    out.viols.push(viol(
                        "C06",
                        "is_removed_false_after_removal",
                        format!("cycle {} of {}: id of slot {} reports not removed right after remove", i + 1, n, slot_of(id)),
                    ));
                    self.diverged = true;
                    return;
                }
                Err(p) => {
                    out.viols.push(viol("C06", "is_removed_panicked", p));
                    self.diverged = true;
                    return;
                }
            }
            let cb = self.arena.count();
            let nk = if i + 1 == n { k } else { self.m.anon_key() };
            match catch(|| self.arena.new_node(T::make(val))) {
                Ok(nid) => {
                    if !self.check_alloc(nk, nid, val, cb, &mut out.viols) {
                        self.diverged = true;
                        return;
                    }
                    // the id removed a moment ago must stay removed although its slot may be live again
                    match catch(|| id.is_removed(&self.arena)) {
                        Ok(true) => {}
                        _ => {
                            out.viols.push(viol(
                                "C06",
                                "is_removed_flipped_after_reuse",
                                format!(
                                    "cycle {} of {}: old id of slot {} reports not removed after the slot was reused (recycle #{})",
                                    i + 1,
                                    n,
                                    slot_of(id),
                                    self.m.recycles[slot_of(id) - 1]
                                ),
                            ));
                            self.diverged = true;
                            return;
                        }
                    }
                    cur = nk;
                    last_id = nid;
                }
                Err(p) => {
                    self.unexpected_panic("C07", "new_node (cycle)", &p, out);
                    return;
                }
            }
        }
        let max_rec = self.m.recycles.iter().copied().max().unwrap_or(0);
        if max_rec >= 32_767 {
            self.stats.probe("generation_ge_32767_reached");
        }
        let raw = raw_ok(vec![last_id]);
        self.apply_shadow(
            |sh| {
                let r = catch(|| {
                    let mut c = start_id;
                    for _ in 0..n {
                        c.remove(sh);
                        c = sh.new_node(T::make(val));
                    }
                    c
                });
                raw_from(r, |c| vec![c])
            },
            &raw,
            "cycle_slot",
            &mut out.viols,
        );
    }
}
