//! Seeded history generator. Every choice is drawn from the run's PRNG looking only at the
//! *model's* current state. Swarm style: every knob varies per run and a random subset of op kinds
//! and fault kinds is disabled in each run.

use crate::model::Model;
use crate::ops::{ExecCfg, Key, Kind, Op, KINDS};
use crate::prng::Rng;
use crate::rel::{classify, Rel, ALL_RELS};
use crate::treemacro::shape_nodes;

#[derive(Clone, Copy, Debug, PartialEq, Eq, PartialOrd, Ord)]
#[repr(usize)]
pub enum K {
    New = 0,
    AppendValue,
    Insert,
    Detach,
    Remove,
    RemoveSubtree,
    SetPayload,
    Reserve,
    CycleSlot,
    TreeMacro,
    RestartClone,
    RestartSerde,
    Fork,
    Clear,
    ObsTraverse,
    ObsPull,
    ObsLookup,
    ObsPrint,
    Drain,
    ObsPar,
    SaveSpare,
    CloneFrom,
    ObsCapacity,
    StaleInsert,
}
pub const NK: usize = 24;
const ALLK: [K; NK] = [
    K::New,
    K::AppendValue,
    K::Insert,
    K::Detach,
    K::Remove,
    K::RemoveSubtree,
    K::SetPayload,
    K::Reserve,
    K::CycleSlot,
    K::TreeMacro,
    K::RestartClone,
    K::RestartSerde,
    K::Fork,
    K::Clear,
    K::ObsTraverse,
    K::ObsPull,
    K::ObsLookup,
    K::ObsPrint,
    K::Drain,
    K::ObsPar,
    K::SaveSpare,
    K::CloneFrom,
    K::ObsCapacity,
    K::StaleInsert,
];

#[derive(Clone, Debug)]
pub struct GenCfg {
    pub max_live: usize,
    pub steps: usize,
    pub w: [u32; NK],
    /// per cent: an insert / append_value argument is a tombstone when one exists
    pub p_tomb: u32,
    pub rel_w: [u32; 16],
    /// per cent of checked forms
    pub p_checked: u32,
    /// per cent of CycleSlot ops that go to the counter boundary
    pub p_boundary: u32,
    /// per cent of prints with a failing sink
    pub p_sink_fail: u32,
    /// per cent of serde restarts with disk faults
    pub p_io_faults: u32,
    /// forest shape bias: 0 none, 1 wide (one hub gets most children), 2 deep (children go under
    /// the deepest node), 3 chain (long top-level sibling chains)
    pub shape: u8,
    pub exec: ExecCfg,
}

fn rel_index(r: Rel) -> usize {
    ALL_RELS.iter().position(|x| *x == r).unwrap()
}

impl GenCfg {
    pub fn draw(rng: &mut Rng, prop: &str) -> GenCfg {
        // ---- scope: small scopes find bugs; half of all runs have <= 6 live nodes
        let (mut max_live, mut steps) = match rng.below(10) {
            0..=4 => (rng.range(2, 6) as usize, if rng.coin() { rng.range(1, 8) } else { rng.range(9, 40) } as usize),
            5..=7 => (rng.range(7, 20) as usize, rng.range(9, 60) as usize),
            _ => (rng.range(21, 60) as usize, rng.range(41, 200) as usize),
        };
        // one run in a hundred is large: thresholds on width, depth, node count, free-list length
        // (read-side properties look at every start node of the big forest: they get more of them)
        let huge = rng.chance(1, if matches!(prop, "C02" | "C09" | "C14") { 30 } else { 60 });
        let mut steps_override: Option<usize> = None;
        if huge {
            max_live = match rng.below(if matches!(prop, "C14" | "C16" | "C09") { 10 } else { 16 }) {
                0..=2 => rng.range(80, 300),
                3 | 4 => rng.range(260, 450),
                6..=15 => rng.range(80, 300),
                // a few are giant: limits around 512 and 1024 levels / nodes
                _ => rng.range(600, 1300),
            } as usize;
            if max_live >= 600 {
                steps_override = Some(rng.range(2000, 4000) as usize);
            }
            steps = rng.range(300, 1500) as usize;
            if let Some(s) = steps_override {
                steps = s;
            }
        }
        // shape bias: random attachment alone almost never gives a node 10 children or depth 10
        let shape = match if max_live >= 600 && rng.coin() {
            2
        } else if huge && prop == "C10" && rng.coin() {
            // long top-level chains are where the sibling iterators find their ends by walking
            4
        } else {
            rng.below(10)
        } {
            0 | 1 => 1u8,
            2 | 3 => 2,
            4 => 3,
            _ => 0,
        };
        let mut w = [0u32; NK];
        let base: [(K, u32); NK] = [
            (K::New, 8),
            (K::AppendValue, 8),
            (K::Insert, 24),
            (K::Detach, 3),
            (K::Remove, 6),
            (K::RemoveSubtree, 3),
            (K::SetPayload, 2),
            (K::Reserve, 1),
            (K::CycleSlot, 1),
            (K::TreeMacro, 1),
            (K::RestartClone, 1),
            (K::RestartSerde, 0),
            (K::Fork, 0),
            (K::Clear, 1),
            (K::ObsTraverse, 0),
            (K::ObsPull, 0),
            (K::ObsLookup, 0),
            (K::ObsPrint, 0),
            (K::Drain, 0),
            (K::ObsPar, 0),
            (K::SaveSpare, 1),
            (K::CloneFrom, 1),
            (K::ObsCapacity, 0),
            (K::StaleInsert, 0),
        ];
        for (k, v) in base {
            w[k as usize] = v;
        }
        let mut rel_w = [4u32; 16];
        let mut p_tomb = *rng.pick(&[0, 5, 15, 40]);
        let mut p_boundary = 0;
        let mut p_sink_fail = 0;
        let mut p_io_faults = 0;
        let mut payload = *rng.pick(&["tracked", "tracked", "tracked", "u8", "wide", "string", "unit", "big", "opt"]);
        let mut twin = false;
        let mut dense = false;
        let set = |w: &mut [u32; NK], k: K, v: u32| w[k as usize] = v;
        match prop {
            "C01" | "C03" => {
                set(&mut w, K::Insert, 40);
                set(&mut w, K::Clear, 1);
                set(&mut w, K::Fork, 1);
            }
            "C02" => {
                set(&mut w, K::Insert, 40);
                // >= 50 % of two-node ops from self / parent / ancestor / descendant / sibling
                for r in [Rel::Same, Rel::BParent, Rel::BAncestor, Rel::BDesc, Rel::BFirstChild, Rel::BLastChild, Rel::BNext, Rel::BPrev, Rel::BFarSib] {
                    rel_w[rel_index(r)] = 10;
                }
                set(&mut w, K::ObsTraverse, 6);
                dense = rng.chance(1, 3);
            }
            "C04" => {
                set(&mut w, K::Remove, 20);
                set(&mut w, K::RemoveSubtree, 12);
                set(&mut w, K::CycleSlot, 2);
                p_boundary = *rng.pick(&[0, 0, 0, 0, 0, 0, 0, 25]);
                set(&mut w, K::Insert, 20);
                set(&mut w, K::AppendValue, 14);
            }
            "C05" => {
                set(&mut w, K::Insert, 50);
                p_tomb = *rng.pick(&[5, 15, 40]);
                // a node whose slot was retired at its removal is a tombstone for good
                set(&mut w, K::CycleSlot, 2);
                p_boundary = *rng.pick(&[0, 0, 0, 0, 0, 0, 0, 25]);
                for r in [Rel::Same, Rel::BParent, Rel::BAncestor, Rel::BFirstChild, Rel::BLastChild, Rel::BNext, Rel::BPrev] {
                    rel_w[rel_index(r)] = 8;
                }
            }
            "C06" => {
                set(&mut w, K::CycleSlot, 10);
                set(&mut w, K::Remove, 10);
                set(&mut w, K::Clear, 1);
                p_boundary = *rng.pick(&[0, 0, 30, 60]);
            }
            "C07" => {
                set(&mut w, K::New, 14);
                set(&mut w, K::AppendValue, 12);
                set(&mut w, K::TreeMacro, 4);
                set(&mut w, K::Remove, 14);
                set(&mut w, K::RemoveSubtree, 8);
                set(&mut w, K::Drain, 5);
                set(&mut w, K::CycleSlot, 2);
                set(&mut w, K::Clear, 1);
                p_boundary = *rng.pick(&[0, 0, 0, 30]);
            }
            "C08" => {
                payload = "tracked";
                set(&mut w, K::SetPayload, 10);
                set(&mut w, K::Remove, 10);
                set(&mut w, K::RemoveSubtree, 6);
                set(&mut w, K::RestartClone, 2);
                set(&mut w, K::Clear, 1);
                set(&mut w, K::Fork, 1);
                set(&mut w, K::CycleSlot, 2);
                set(&mut w, K::SaveSpare, 1);
                set(&mut w, K::CloneFrom, 1);
                p_boundary = *rng.pick(&[0, 0, 0, 0, 0, 0, 0, 20]);
            }
            "C09" => {
                set(&mut w, K::ObsTraverse, 10);
                dense = rng.chance(1, 2);
            }
            "C10" => {
                set(&mut w, K::ObsPull, 40);
                set(&mut w, K::Detach, 5);
                rel_w[rel_index(Rel::OtherTree)] = 10; // builds top-level chains via insert_after/before
            }
            "C11" => {
                set(&mut w, K::ObsLookup, 10);
                set(&mut w, K::Reserve, 3);
                set(&mut w, K::CycleSlot, 2);
                p_boundary = *rng.pick(&[0, 0, 0, 0, 0, 20]);
                dense = rng.chance(1, 3);
                payload = *rng.pick(&["tracked", "u8", "wide", "string", "unit", "big", "opt"]);
            }
            "C12" => {
                set(&mut w, K::Remove, 14);
                set(&mut w, K::RemoveSubtree, 12);
                set(&mut w, K::Insert, 30);
                set(&mut w, K::AppendValue, 14);
                set(&mut w, K::ObsTraverse, 2);
                set(&mut w, K::TreeMacro, 3);
                p_tomb = *rng.pick(&[15, 40, 60]);
                set(&mut w, K::CycleSlot, 2);
                p_boundary = *rng.pick(&[0, 0, 0, 0, 0, 0, 0, 25]);
            }
            "C13" => {
                twin = true;
                set(&mut w, K::Fork, 4);
                set(&mut w, K::Clear, 3);
                set(&mut w, K::Reserve, 4);
                set(&mut w, K::RestartClone, 3);
                set(&mut w, K::Remove, 10);
                set(&mut w, K::SaveSpare, 3);
                set(&mut w, K::CloneFrom, 3);
                set(&mut w, K::ObsCapacity, 2);
            }
            "C14" => {
                payload = *rng.pick(&["tracked", "tracked", "tracked", "string", "u8"]);
                set(&mut w, K::ObsPrint, 30);
                set(&mut w, K::AppendValue, 14);
                p_sink_fail = *rng.pick(&[0, 0, 0, 30]);
            }
            "C16" => {
                set(&mut w, K::RestartSerde, 6);
                set(&mut w, K::Remove, 10);
                set(&mut w, K::RemoveSubtree, 5);
                set(&mut w, K::CycleSlot, 2);
                set(&mut w, K::Clear, 1);
                p_io_faults = *rng.pick(&[0, 50, 100]);
                p_boundary = *rng.pick(&[0, 0, 0, 20]);
                payload = *rng.pick(&["tracked", "u8", "wide", "string", "unit", "big", "opt", "opt", "u8"]);
            }
            _ => {
                // "MIX": the whole alphabet (C17 battery, determinism self-test)
                set(&mut w, K::Fork, 1);
                set(&mut w, K::Clear, 1);
                set(&mut w, K::RestartSerde, 2);
                set(&mut w, K::TreeMacro, 3);
                set(&mut w, K::ObsTraverse, 2);
                set(&mut w, K::ObsPull, 2);
                set(&mut w, K::ObsLookup, 1);
                set(&mut w, K::ObsPrint, 3);
                set(&mut w, K::Drain, 1);
                set(&mut w, K::ObsPar, 2);
                set(&mut w, K::SaveSpare, 1);
                set(&mut w, K::CloneFrom, 1);
                set(&mut w, K::ObsCapacity, 1);
                p_sink_fail = 10;
                if prop == "C17" {
                    set(&mut w, K::StaleInsert, 1);
                }
                p_io_faults = 50;
            }
        }
        // ---- swarm: disable a random subset of the non-essential kinds, rescale the others
        let essential: &[K] = match prop {
            "C06" => &[K::New, K::CycleSlot],
            "C09" => &[K::New, K::ObsTraverse],
            "C10" => &[K::New, K::ObsPull],
            "C11" => &[K::New, K::ObsLookup],
            "C13" => &[K::New],
            "C14" => &[K::New, K::ObsPrint],
            "C16" => &[K::New, K::RestartSerde],
            _ => &[K::New],
        };
        for k in ALLK {
            if essential.contains(&k) {
                continue;
            }
            match rng.below(8) {
                0 | 1 => w[k as usize] = 0,
                2 => w[k as usize] *= 2,
                3 => w[k as usize] *= 4,
                _ => {}
            }
        }
        if huge {
            // fill up quickly, so that most of the run happens at scale; fewer whole-tree kills
            w[K::AppendValue as usize] = w[K::AppendValue as usize].max(8) * 6;
            w[K::New as usize] = w[K::New as usize].max(4) * 2;
            w[K::Clear as usize] = w[K::Clear as usize].min(1);
            w[K::CycleSlot as usize] = w[K::CycleSlot as usize].min(1);
            w[K::RemoveSubtree as usize] = w[K::RemoveSubtree as usize].min(2);
            if max_live >= 600 {
                // giant forests: observations cost O(n * depth) each, a few per run are enough
                for k in [K::ObsPrint, K::ObsTraverse, K::RestartSerde, K::ObsLookup, K::Fork, K::RestartClone, K::SaveSpare, K::CloneFrom] {
                    w[k as usize] = w[k as usize].min(1);
                }
                w[K::ObsPull as usize] = w[K::ObsPull as usize].min(4);
            }
            if shape == 3 {
                // chain-shaped large runs: many parentless nodes, linked into long top-level chains
                w[K::New as usize] *= 3;
                w[K::Insert as usize] = w[K::Insert as usize].max(24) * 2;
                w[K::RemoveSubtree as usize] = w[K::RemoveSubtree as usize].min(1);
            }
            if shape == 2 && max_live >= 600 {
                // let one path grow past 512 / 1024 levels: nothing that cuts it
                w[K::AppendValue as usize] *= 3;
                w[K::RemoveSubtree as usize] = 0;
                w[K::Detach as usize] = 0;
                w[K::Remove as usize] = w[K::Remove as usize].min(1);
                w[K::Clear as usize] = 0;
                w[K::TreeMacro as usize] = 0;
                w[K::New as usize] = w[K::New as usize].min(2);
            }
            if shape == 2 {
                // a deep chain is cut by every move or detach on its path: let it grow first
                w[K::Insert as usize] /= 6;
                w[K::Detach as usize] = w[K::Detach as usize].min(1);
                w[K::Remove as usize] = w[K::Remove as usize].min(3);
            }
        }
        for r in rel_w.iter_mut() {
            match rng.below(8) {
                0 => *r = 0,
                1 => *r *= 4,
                _ => {}
            }
        }
        let p_checked = *rng.pick(&[20, 50, 50, 80, 100]);
        let capacity = match rng.below(4) {
            0 => 0,
            1 => 1,
            2 => max_live as u32,
            _ => 64,
        };
        GenCfg {
            max_live,
            steps,
            w,
            p_tomb,
            rel_w,
            p_checked,
            p_boundary,
            p_sink_fail,
            p_io_faults,
            shape,
            exec: ExecCfg {
                payload: payload.to_string(),
                capacity,
                twin,
                dense_reads: dense,
            },
        }
    }
}

pub struct Gen {
    pub cfg: GenCfg,
    pub next_key: Key,
    pub fork_active: u32,
    /// follow-up ops queued by an earlier op (e.g. different ways of removing a node that was
    /// left in the last generation of its slot)
    pub pending: Vec<Op>,
}

impl Gen {
    pub fn new(cfg: GenCfg) -> Gen {
        Gen {
            cfg,
            next_key: 1,
            fork_active: 0,
            pending: Vec::new(),
        }
    }
    fn key(&mut self) -> Key {
        let k = self.next_key;
        self.next_key += 1;
        k
    }

    fn pick_node(&self, rng: &mut Rng, m: &Model, allow_tomb: bool) -> Option<Key> {
        let live = m.live_keys();
        let tombs = if allow_tomb { m.tomb_keys() } else { vec![] };
        if !tombs.is_empty() && (live.is_empty() || rng.chance(self.cfg.p_tomb as u64, 100)) {
            return Some(*rng.pick(&tombs));
        }
        if live.is_empty() {
            return None;
        }
        Some(*rng.pick(&live))
    }

    /// a live node; one time in eight (one in three in large runs) the one with most children or
    /// the root of the biggest / deepest tree, so that removals also hit the big structures
    fn pick_big(&self, rng: &mut Rng, m: &Model) -> Key {
        let live = m.live_keys();
        let often = if self.cfg.max_live >= 80 { 3 } else { 8 };
        if live.len() >= 4 && rng.chance(1, often) {
            return match rng.below(3) {
                0 => live.iter().copied().max_by_key(|k| (m.n(*k).kids.len(), u32::MAX - *k)).unwrap(),
                1 => {
                    let d = live.iter().copied().max_by_key(|k| (m.depth(*k), *k)).unwrap();
                    // somewhere on the path from the deepest node to its root
                    let mut path = vec![d];
                    let mut c = d;
                    while let Some(p) = m.parent(c) {
                        path.push(p);
                        c = p;
                    }
                    *rng.pick(&path)
                }
                _ => {
                    let roots: Vec<Key> = live.iter().copied().filter(|k| m.parent(*k).is_none()).collect();
                    *rng.pick(&roots)
                }
            };
        }
        *rng.pick(&live)
    }

    /// wide: the live node with most children; deep: the deepest live node (3 times out of 4)
    fn shaped_parent(&self, rng: &mut Rng, m: &Model) -> Option<Key> {
        if m.n_live == 0 || !(self.cfg.shape == 1 || self.cfg.shape == 2) || !rng.chance(7, 8) {
            return None;
        }
        let live = m.live_keys();
        if self.cfg.shape == 1 {
            live.iter().copied().max_by_key(|k| (m.n(*k).kids.len(), u32::MAX - *k))
        } else {
            live.iter().copied().max_by_key(|k| (m.depth(*k), *k))
        }
    }

    fn pick_pair(&self, rng: &mut Rng, m: &Model) -> Option<(Key, Key)> {
        let live = m.live_keys();
        let tombs = m.tomb_keys();
        if live.is_empty() {
            return None;
        }
        // a tombstone in either position, by the run's fault rate
        if !tombs.is_empty() && rng.chance(self.cfg.p_tomb as u64, 100) {
            let t = *rng.pick(&tombs);
            let other = if tombs.len() > 1 && rng.chance(1, 6) { *rng.pick(&tombs) } else { *rng.pick(&live) };
            return Some(if rng.coin() { (t, other) } else { (other, t) });
        }
        let mut by_class: Vec<Vec<(Key, Key)>> = vec![Vec::new(); 16];
        if live.len() <= 16 {
            for &a in &live {
                for &b in &live {
                    by_class[rel_index(classify(m, a, b))].push((a, b));
                }
            }
        } else {
            for _ in 0..96 {
                let a = *rng.pick(&live);
                let b = *rng.pick(&live);
                by_class[rel_index(classify(m, a, b))].push((a, b));
            }
            // ancestors and children are rare among random pairs: add some on purpose
            for _ in 0..16 {
                let a = *rng.pick(&live);
                if let Some(p) = m.parent(a) {
                    by_class[rel_index(classify(m, a, p))].push((a, p));
                    if let Some(g) = m.parent(p) {
                        by_class[rel_index(classify(m, a, g))].push((a, g));
                    }
                    by_class[rel_index(classify(m, p, a))].push((p, a));
                }
                if m.depth(a) >= 3 {
                    // a far ancestor: the root of a's tree, and a random node on the way up
                    let root = m.root_of(a);
                    by_class[rel_index(classify(m, a, root))].push((a, root));
                    by_class[rel_index(classify(m, root, a))].push((root, a));
                }
                if let Some(n) = m.next(a) {
                    by_class[rel_index(classify(m, a, n))].push((a, n));
                    by_class[rel_index(classify(m, n, a))].push((n, a));
                }
            }
        }
        let weights: Vec<u32> = (0..16).map(|i| if by_class[i].is_empty() { 0 } else { self.cfg.rel_w[i].max(0) }).collect();
        let ci = match rng.weighted(&weights) {
            Some(c) => c,
            None => {
                // all weighted classes empty: any non-empty class
                let ne: Vec<usize> = (0..16).filter(|i| !by_class[*i].is_empty()).collect();
                *rng.pick(&ne)
            }
        };
        Some(*rng.pick(&by_class[ci]))
    }

    pub fn next_op(&mut self, rng: &mut Rng, m: &Model) -> Op {
        if !self.pending.is_empty() {
            return self.pending.remove(0);
        }
        let live_n = m.n_live;
        let mut w = self.cfg.w;
        let z = |w: &mut [u32; NK], ks: &[K]| {
            for k in ks {
                w[*k as usize] = 0;
            }
        };
        if live_n == 0 {
            z(
                &mut w,
                &[K::AppendValue, K::Insert, K::Detach, K::Remove, K::RemoveSubtree, K::SetPayload, K::CycleSlot, K::ObsPull, K::ObsPrint],
            );
            if m.tomb_keys().is_empty() {
                // nothing to look at yet: strongly prefer creating a node
                w[K::New as usize] = w[K::New as usize].max(1) * 50;
            } else {
                w[K::AppendValue as usize] = self.cfg.w[K::AppendValue as usize].min(2);
                w[K::Insert as usize] = 0;
            }
        }
        if live_n >= self.cfg.max_live {
            z(&mut w, &[K::New, K::AppendValue, K::TreeMacro]);
        }
        if self.fork_active > 0 {
            self.fork_active -= 1;
            z(&mut w, &[K::Fork, K::RestartClone, K::RestartSerde, K::Clear, K::CloneFrom]);
        }
        let kind = match rng.weighted(&w) {
            Some(i) => ALLK[i],
            None => {
                if live_n >= self.cfg.max_live && live_n > 0 {
                    K::Remove
                } else {
                    K::New
                }
            }
        };
        let val = rng.below(4096) as u32;
        match kind {
            K::New => Op::New { k: self.key(), val },
            K::AppendValue => {
                let p = match self.shaped_parent(rng, m) {
                    Some(p) => p,
                    None => self.pick_node(rng, m, true).unwrap(),
                };
                Op::AppendValue {
                    p,
                    k: self.key(),
                    val,
                    slow: rng.chance(1, 3),
                }
            }
            K::Insert if self.cfg.shape == 3 && rng.chance(3, 4) && m.n_live >= 2 => {
                // grow top-level sibling chains: a parentless target, insert_after / insert_before
                let live = m.live_keys();
                // a member of the longest chain; next to it goes a parentless singleton if there is
                // one (the chain grows by one), any live node otherwise
                let longest = m.chains.values().max_by_key(|c| c.len()).cloned().unwrap_or_default();
                let a = if longest.is_empty() { *rng.pick(&live) } else { *rng.pick(&longest) };
                let singles: Vec<Key> = m.chains.values().filter(|c| c.len() == 1 && c[0] != a).map(|c| c[0]).collect();
                let b = if !singles.is_empty() && rng.chance(3, 4) { *rng.pick(&singles) } else { *rng.pick(&live) };
                Op::Insert {
                    kind: if rng.coin() { Kind::After } else { Kind::Before },
                    checked: rng.chance(self.cfg.p_checked as u64, 100),
                    a,
                    b,
                }
            }
            K::Insert if (self.cfg.shape == 1 || self.cfg.shape == 2) && rng.chance(1, 3) && m.n_live >= 2 => {
                // move something under the hub / the deepest node
                let a = self.shaped_parent(rng, m).unwrap_or_else(|| *rng.pick(&m.live_keys()));
                let b = *rng.pick(&m.live_keys());
                Op::Insert {
                    kind: if rng.coin() { Kind::Append } else { Kind::Prepend },
                    checked: rng.chance(self.cfg.p_checked as u64, 100),
                    a,
                    b,
                }
            }
            K::Insert => match self.pick_pair(rng, m) {
                Some((a, b)) => Op::Insert {
                    kind: *rng.pick(&KINDS),
                    checked: rng.chance(self.cfg.p_checked as u64, 100),
                    a,
                    b,
                },
                None => Op::New { k: self.key(), val },
            },
            K::Detach => Op::Detach { x: self.pick_big(rng, m) },
            K::Remove => Op::Remove { x: self.pick_big(rng, m) },
            K::RemoveSubtree => Op::RemoveSubtree { x: self.pick_big(rng, m) },
            K::SetPayload => Op::SetPayload {
                x: self.pick_node(rng, m, false).unwrap(),
                val,
                via: rng.below(3) as u8,
            },
            K::Reserve => Op::Reserve {
                n: *rng.pick(&[0u32, 1, 2, 5, 17, 100, 1_000_000, 1_000_001, 1_000_002, 1_000_001, u32::MAX]),
            },
            K::CycleSlot => {
                let x = self.pick_node(rng, m, false).unwrap();
                let f = m.free_effective().len() as u32;
                let rec = m.recycles[m.n(x).slot - 1];
                let k_new = self.key(); // the key this op defines
                let n = if f == 0 && rec < 32_767 && rng.chance(self.cfg.p_boundary as u64 / 3, 100) {
                    // stop exactly in the slot's last generation: the node stays live there, and
                    // whatever removes it later is the removal that retires the slot. Half of the
                    // time that removal is scripted right away, in one of the ways that differ in
                    // the free-list state and in the removing call.
                    if rng.coin() {
                        let others: Vec<Key> = m.live_keys().into_iter().filter(|k| *k != x).collect();
                        let mut script: Vec<Op> = match rng.below(4) {
                            // as the root of a subtree of several nodes
                            0 => {
                                let (c1, c2) = (self.key(), self.key());
                                vec![
                                    Op::AppendValue { p: k_new, k: c1, val, slow: false },
                                    Op::AppendValue { p: c1, k: c2, val, slow: false },
                                    Op::RemoveSubtree { x: k_new },
                                ]
                            }
                            // as a descendant inside a removed subtree
                            1 if !others.is_empty() => {
                                let p = *rng.pick(&others);
                                vec![Op::Insert { kind: Kind::Append, checked: true, a: p, b: k_new }, Op::RemoveSubtree { x: p }]
                            }
                            // with another slot already waiting in the free list
                            2 if !others.is_empty() => vec![Op::Remove { x: *rng.pick(&others) }, Op::Remove { x: k_new }],
                            _ => vec![Op::Remove { x: k_new }],
                        };
                        // a few allocations afterwards drain the free list down to the retired slot
                        for _ in 0..3 {
                            let k = self.key();
                            script.push(Op::New { k, val });
                        }
                        self.pending = script;
                    }
                    32_767 - rec
                } else if f <= 2 && rng.chance(self.cfg.p_boundary as u64, 100) {
                    let per_slot = match rng.below(10) {
                        0..=6 => rng.range(32_700, 32_800) as u32,
                        7 => 40_000,
                        8 => 33_000,
                        _ => 70_000,
                    };
                    (per_slot * (f + 1)).min(150_000)
                } else if rng.chance(1, 5) {
                    // medium runs: cross small counter widths / thresholds a build might choose
                    rng.range(100, 600) as u32
                } else {
                    rng.range(1, 50) as u32
                };
                Op::CycleSlot { x, n, k: k_new, val }
            }
            K::TreeMacro => {
                let shape = rng.below(6) as u8;
                let root = if live_n > 0 && rng.coin() { self.pick_node(rng, m, true) } else { None };
                let cnt = shape_nodes(shape) as u32 + if root.is_none() { 1 } else { 0 };
                let kbase = self.next_key;
                self.next_key += cnt.max(1);
                Op::TreeMacro { shape, root, kbase, val }
            }
            K::RestartClone => Op::RestartClone,
            K::StaleInsert => {
                // a slot that has been recycled at least once, and a live partner
                let cands: Vec<usize> = (0..m.issued.len()).filter(|s| m.issued[*s].len() >= 2 && m.slot_key[*s].is_some()).collect();
                if cands.is_empty() || live_n == 0 {
                    Op::ObsLookup
                } else {
                    let s = *rng.pick(&cands);
                    let ord = rng.usize_below(m.issued[s].len() - 1);
                    Op::StaleInsert {
                        kind: *rng.pick(&KINDS),
                        checked: rng.coin(),
                        a: self.pick_node(rng, m, false).unwrap(),
                        slot: s as u32 + 1,
                        ord: ord as u32,
                        recv: rng.coin(),
                    }
                }
            }
            K::SaveSpare => Op::SaveSpare,
            K::CloneFrom => Op::CloneFrom,
            K::ObsCapacity => Op::ObsCapacity {
                n: *rng.pick(&[0u32, 1, 2, 3, 4, 5, 31, 32, 33, 126, 127, 128, 129, 255, 256, 257, 1000, 3000, u32::MAX]),
                ty: rng.below(6) as u8,
            },
            K::RestartSerde => Op::RestartSerde {
                fmt: rng.below(2) as u8,
                io: if rng.chance(self.cfg.p_io_faults as u64, 100) { rng.next_u64() | 1 } else { 0 },
            },
            K::Fork => {
                let k = rng.range(1, 6) as u32;
                self.fork_active = k + 1;
                Op::Fork { k, swap: rng.coin() }
            }
            K::Clear => Op::Clear,
            K::ObsTraverse => Op::ObsTraverse,
            K::ObsPull => {
                let mut x = self.pick_node(rng, m, false).unwrap();
                if self.cfg.shape == 3 && rng.coin() {
                    // an end (or near-end) member of the longest top-level chain
                    if let Some(c) = m.chains.values().max_by_key(|c| c.len()) {
                        let i = rng.usize_below(c.len().min(3));
                        x = if rng.coin() { c[i] } else { c[c.len() - 1 - i] };
                    }
                }
                // bias towards the iterators and nodes that matter: siblings of parentless nodes
                let it = rng.below(3) as u8;
                let list_len = m.list(m.n(x).loc).len();
                let pos = m.pos(x);
                let elen = match it {
                    0 => m.n(x).kids.len(),
                    1 => pos + 1,
                    _ => list_len - pos,
                };
                let l = elen + 4;
                let word: Vec<bool> = match rng.below(6) {
                    0 => vec![true; l],
                    1 => vec![false; l],
                    2 => (0..l).map(|i| i % 2 == 0).collect(),
                    3 => (0..l).map(|i| i % 2 == 1).collect(),
                    _ => (0..l).map(|_| rng.coin()).collect(),
                };
                Op::ObsPull { x, it, word }
            }
            K::ObsLookup => Op::ObsLookup,
            K::ObsPrint => Op::ObsPrint {
                x: self.pick_node(rng, m, false).unwrap(),
                mode: rng.below(4) as u8,
                frag: rng.below(6) as u8,
                sink_fail: if rng.chance(self.cfg.p_sink_fail as u64, 100) { Some(rng.range(1, 12) as u32) } else { None },
            },
            K::Drain => Op::Drain,
            K::ObsPar => Op::ObsPar { threads: rng.below(4) as u8 },
        }
    }
}

#[allow(dead_code)]
pub fn kind_of_insert(i: usize) -> Kind {
    KINDS[i % 4]
}
