//! Reference forest model: trivial inside. Ordered lists of children and ordered top-level
//! sibling chains ("top-level nodes behave like children of an implicit parent").
//! The model never predicts *which* free slot an allocation returns; it validates that the real
//! choice is legal (free *set*, no FIFO assumption) and adopts it.

use crate::ops::Key;
use indextree::NodeId;
use std::collections::{BTreeMap, BTreeSet};

#[derive(Clone, Copy, PartialEq, Eq, Debug)]
pub enum Loc {
    Parent(Key),
    Chain(u32),
}

#[derive(Clone, Debug)]
pub struct MNode {
    /// false = tombstone (removed, slot not yet recycled)
    pub live: bool,
    pub loc: Loc,
    pub kids: Vec<Key>,
    pub val: u32,
    pub id: NodeId,
    /// 1-based position
    pub slot: usize,
    pub serial: Option<u64>,
    pub born: usize,
    pub recycled: bool,
}

/// How many times a slot must have been recycled before the model accepts that the arena
/// retires it ("tens of thousands of times", C07). Deliberately far below 32 767.
pub const RETIRE_MIN_RECYCLES: u32 = 10_000;

#[derive(Clone, Default)]
pub struct Model {
    pub nodes: BTreeMap<Key, MNode>,
    pub chains: BTreeMap<u32, Vec<Key>>,
    next_chain: u32,
    /// occupant (live or tombstone) of each slot, index = slot-1
    pub slot_key: Vec<Option<Key>>,
    pub free: BTreeSet<usize>,
    pub retired: BTreeSet<usize>,
    pub recycles: Vec<u32>,
    /// every id issued per slot, in order (since creation / last clear)
    pub issued: Vec<Vec<NodeId>>,
    pub issued_set: BTreeSet<NodeId>,
    /// expected `arena.count()`
    pub count: usize,
    pub anon_next: Key,
    pub n_live: usize,
    /// keys ever used (explicit keys must be fresh)
    pub used_keys: BTreeSet<Key>,
}

pub const ANON_BASE: Key = 0x4000_0000;

impl Model {
    pub fn new() -> Model {
        Model {
            anon_next: ANON_BASE,
            ..Default::default()
        }
    }
    pub fn clear(&mut self) {
        let anon = self.anon_next;
        let used = std::mem::take(&mut self.used_keys);
        *self = Model::new();
        self.anon_next = anon;
        self.used_keys = used;
    }
    pub fn anon_key(&mut self) -> Key {
        let k = self.anon_next;
        self.anon_next += 1;
        k
    }
    pub fn is_live(&self, k: Key) -> bool {
        self.nodes.get(&k).is_some_and(|n| n.live)
    }
    pub fn is_tomb(&self, k: Key) -> bool {
        self.nodes.get(&k).is_some_and(|n| !n.live)
    }
    pub fn known(&self, k: Key) -> bool {
        self.nodes.contains_key(&k)
    }
    pub fn n(&self, k: Key) -> &MNode {
        &self.nodes[&k]
    }
    pub fn id(&self, k: Key) -> NodeId {
        self.nodes[&k].id
    }
    pub fn live_keys(&self) -> Vec<Key> {
        self.nodes
            .iter()
            .filter(|(_, n)| n.live)
            .map(|(k, _)| *k)
            .collect()
    }
    pub fn tomb_keys(&self) -> Vec<Key> {
        self.nodes
            .iter()
            .filter(|(_, n)| !n.live)
            .map(|(k, _)| *k)
            .collect()
    }
    pub fn list(&self, loc: Loc) -> &Vec<Key> {
        match loc {
            Loc::Parent(p) => &self.nodes[&p].kids,
            Loc::Chain(c) => &self.chains[&c],
        }
    }
    fn list_mut(&mut self, loc: Loc) -> &mut Vec<Key> {
        match loc {
            Loc::Parent(p) => &mut self.nodes.get_mut(&p).unwrap().kids,
            Loc::Chain(c) => self.chains.get_mut(&c).unwrap(),
        }
    }
    pub fn pos(&self, k: Key) -> usize {
        let loc = self.nodes[&k].loc;
        self.list(loc).iter().position(|x| *x == k).unwrap()
    }
    pub fn parent(&self, k: Key) -> Option<Key> {
        match self.nodes[&k].loc {
            Loc::Parent(p) => Some(p),
            Loc::Chain(_) => None,
        }
    }
    pub fn prev(&self, k: Key) -> Option<Key> {
        let l = self.list(self.nodes[&k].loc);
        let i = l.iter().position(|x| *x == k).unwrap();
        if i > 0 {
            Some(l[i - 1])
        } else {
            None
        }
    }
    pub fn next(&self, k: Key) -> Option<Key> {
        let l = self.list(self.nodes[&k].loc);
        let i = l.iter().position(|x| *x == k).unwrap();
        l.get(i + 1).copied()
    }
    /// [parent, previous_sibling, next_sibling, first_child, last_child]
    pub fn links(&self, k: Key) -> [Option<Key>; 5] {
        let n = &self.nodes[&k];
        [
            self.parent(k),
            self.prev(k),
            self.next(k),
            n.kids.first().copied(),
            n.kids.last().copied(),
        ]
    }
    /// is `anc` a proper ancestor of `k`?
    pub fn is_proper_ancestor(&self, anc: Key, k: Key) -> bool {
        let mut cur = self.parent(k);
        while let Some(p) = cur {
            if p == anc {
                return true;
            }
            cur = self.parent(p);
        }
        false
    }
    pub fn depth(&self, k: Key) -> usize {
        let mut d = 0;
        let mut cur = self.parent(k);
        while let Some(p) = cur {
            d += 1;
            cur = self.parent(p);
        }
        d
    }
    pub fn root_of(&self, k: Key) -> Key {
        let mut cur = k;
        while let Some(p) = self.parent(cur) {
            cur = p;
        }
        cur
    }
    /// pre-order of the subtree rooted at k
    pub fn subtree(&self, k: Key) -> Vec<Key> {
        let mut out = Vec::new();
        let mut stack = vec![k];
        while let Some(x) = stack.pop() {
            out.push(x);
            for c in self.nodes[&x].kids.iter().rev() {
                stack.push(*c);
            }
        }
        out
    }
    fn new_chain(&mut self, v: Vec<Key>) -> u32 {
        let c = self.next_chain;
        self.next_chain += 1;
        self.chains.insert(c, v);
        c
    }
    fn take_out(&mut self, k: Key) {
        let loc = self.nodes[&k].loc;
        let l = self.list_mut(loc);
        let i = l.iter().position(|x| *x == k).unwrap();
        l.remove(i);
        if let Loc::Chain(c) = loc {
            if self.chains[&c].is_empty() {
                self.chains.remove(&c);
            }
        }
    }
    pub fn detach(&mut self, k: Key) {
        self.take_out(k);
        let c = self.new_chain(vec![k]);
        self.nodes.get_mut(&k).unwrap().loc = Loc::Chain(c);
    }
    /// append (front=false) / prepend (front=true) c under p
    pub fn attach_child(&mut self, p: Key, c: Key, front: bool) {
        self.take_out(c);
        let kids = &mut self.nodes.get_mut(&p).unwrap().kids;
        if front {
            kids.insert(0, c);
        } else {
            kids.push(c);
        }
        self.nodes.get_mut(&c).unwrap().loc = Loc::Parent(p);
    }
    /// insert n immediately after/before s, in s's list as it is after n was taken out
    pub fn insert_sibling(&mut self, s: Key, n: Key, after: bool) {
        // careful: if s and n form a two-element chain, taking n out must not delete s's chain
        self.take_out(n);
        let loc = self.nodes[&s].loc;
        let l = self.list_mut(loc);
        let i = l.iter().position(|x| *x == s).unwrap();
        l.insert(if after { i + 1 } else { i }, n);
        self.nodes.get_mut(&n).unwrap().loc = loc;
    }
    fn kill(&mut self, k: Key) {
        let n = self.nodes.get_mut(&k).unwrap();
        n.live = false;
        n.kids.clear();
        let slot = n.slot;
        self.free.insert(slot);
        self.n_live -= 1;
    }
    /// remove(x): children take x's place in x's list
    pub fn remove(&mut self, x: Key) {
        let loc = self.nodes[&x].loc;
        let kids = std::mem::take(&mut self.nodes.get_mut(&x).unwrap().kids);
        for c in &kids {
            self.nodes.get_mut(c).unwrap().loc = loc;
        }
        let l = self.list_mut(loc);
        let i = l.iter().position(|k| *k == x).unwrap();
        l.splice(i..=i, kids.iter().copied());
        if let Loc::Chain(c) = loc {
            if self.chains[&c].is_empty() {
                self.chains.remove(&c);
            }
        }
        self.kill(x);
    }
    /// remove_subtree(x): returns the keys that died (pre-order)
    pub fn remove_subtree(&mut self, x: Key) -> Vec<Key> {
        let sub = self.subtree(x);
        self.take_out(x);
        for k in &sub {
            self.kill(*k);
        }
        sub
    }
    /// Adopt a real allocation: key k now lives in `slot` with id `id` as a new parentless node.
    pub fn adopt_alloc(&mut self, k: Key, id: NodeId, val: u32, serial: Option<u64>, step: usize) {
        let slot: usize = id.into();
        let mut recycled = false;
        if slot == self.slot_key.len() + 1 {
            self.slot_key.push(None);
            self.recycles.push(0);
            self.issued.push(Vec::new());
            self.count = slot;
        } else {
            recycled = true;
            if let Some(old) = self.slot_key[slot - 1] {
                self.nodes.remove(&old);
            }
            self.free.remove(&slot);
            self.recycles[slot - 1] += 1;
        }
        self.slot_key[slot - 1] = Some(k);
        self.issued[slot - 1].push(id);
        self.issued_set.insert(id);
        let c = self.new_chain(vec![k]);
        self.nodes.insert(
            k,
            MNode {
                live: true,
                loc: Loc::Chain(c),
                kids: Vec::new(),
                val,
                id,
                slot,
                serial,
                born: step,
                recycled,
            },
        );
        self.used_keys.insert(k);
        self.n_live += 1;
    }
    /// free slots the arena must still be able to hand out (retired ones excluded)
    pub fn free_effective(&self) -> BTreeSet<usize> {
        self.free.difference(&self.retired).copied().collect()
    }
    pub fn retire_eligible(&self, slot: usize) -> bool {
        self.recycles[slot - 1] >= RETIRE_MIN_RECYCLES
    }
    /// key of the live node or tombstone in the slot of `id`, if the id is the current one
    pub fn key_of(&self, id: NodeId) -> Option<Key> {
        let slot: usize = id.into();
        let k = (*self.slot_key.get(slot - 1)?)?;
        if self.nodes[&k].id == id {
            Some(k)
        } else {
            None
        }
    }

    /// canonical shape hash of the live forest (ids and keys ignored): used to count distinct
    /// states reached.
    pub fn shape_hash(&self) -> u64 {
        use crate::prng::Fnv;
        fn tree(m: &Model, k: Key) -> u64 {
            let mut h = Fnv::new();
            h.u8(b'(');
            for c in &m.nodes[&k].kids {
                h.u64(tree(m, *c));
            }
            h.u8(b')');
            h.0
        }
        let mut chains: Vec<u64> = self
            .chains
            .values()
            .map(|l| {
                let mut h = Fnv::new();
                h.u8(b'[');
                for k in l {
                    h.u64(tree(self, *k));
                }
                h.0
            })
            .collect();
        chains.sort_unstable();
        let mut h = Fnv::new();
        for c in chains {
            h.u64(c);
        }
        h.u64(self.nodes.len() as u64 - self.n_live as u64); // number of tombstones
        h.u64(self.free.len() as u64);
        h.0
    }
}
