//! The explicit, serialisable operation alphabet. Nodes are named by model key, never by NodeId.
//! Every op that creates nodes names the keys it defines, so that any subsequence of an op list
//! is still executable (needed by the minimiser): an op whose keys are not in the state it needs
//! is skipped.

use serde::{Deserialize, Serialize};

pub type Key = u32;

#[derive(Clone, Copy, Debug, PartialEq, Eq, Serialize, Deserialize, PartialOrd, Ord)]
pub enum Kind {
    Append,
    Prepend,
    After,
    Before,
}
pub const KINDS: [Kind; 4] = [Kind::Append, Kind::Prepend, Kind::After, Kind::Before];

impl Kind {
    pub fn name(self) -> &'static str {
        match self {
            Kind::Append => "append",
            Kind::Prepend => "prepend",
            Kind::After => "insert_after",
            Kind::Before => "insert_before",
        }
    }
}

#[derive(Clone, Debug, PartialEq, Eq, Serialize, Deserialize)]
pub enum Op {
    /// `Arena::new_node`
    New { k: Key, val: u32 },
    /// `parent.append_value(v)`; `slow` = `new_node` followed by `append` (fast path vs slow path)
    AppendValue { p: Key, k: Key, val: u32, slow: bool },
    /// `a.<kind>(b)`: a = the node the call is made on (target), b = the node that is moved
    Insert { kind: Kind, checked: bool, a: Key, b: Key },
    Detach { x: Key },
    Remove { x: Key },
    RemoveSubtree { x: Key },
    /// write through get_mut (0), IndexMut (1), iter_mut (2)
    SetPayload { x: Key, val: u32, via: u8 },
    Reserve { n: u32 },
    /// n x (remove the current node, new_node): drives slot generation counters
    CycleSlot { x: Key, n: u32, k: Key, val: u32 },
    /// one of a fixed set of `tree!` literals; keys kbase.. are defined (root first when created)
    TreeMacro { shape: u8, root: Option<Key>, kbase: Key, val: u32 },
    /// b = a.clone(); drop(a); a = b
    RestartClone,
    /// keep a clone of the current arena aside as a later `clone_from` destination
    SaveSpare,
    /// spare.clone_from(&a); drop(a); a = spare   (RestartClone if nothing was kept aside)
    CloneFrom,
    /// Differential battery only (C17): an insert call with a *stale* id (an earlier generation
    /// of `slot`, the `ord`-th id issued for it) as receiver (`recv`) or as argument, against live
    /// node `a`. No property says what must happen; the outcome and the resulting state go into
    /// the event log that is compared between builds, and the run ends.
    StaleInsert { kind: Kind, checked: bool, a: Key, slot: u32, ord: u32, recv: bool },
    /// `with_capacity(n)` / `reserve(n)` guarantees on fresh arenas of payload type `ty`
    /// (0 unit, 1 u8, 2 [u8; 4096], 3 [u8; 8192], 4 [u64; 4096], 5 String)
    ObsCapacity { n: u32, ty: u8 },
    /// serialise to the simulated disk, deserialise a copy; the original stays as lock-step twin.
    /// fmt 0 = serde_json, 1 = harness binary format; `io` seeds the disk faults (0 = none)
    RestartSerde { fmt: u8, io: u64 },
    /// clone; the next `k` ops go to one side only; `swap` = continue on the frozen side after
    Fork { k: u32, swap: bool },
    Clear,
    // ---- observation ops (read side); parameters that would otherwise be random are explicit
    /// all ten traversals from every live node, NodeEdge stepping, inverses
    ObsTraverse,
    /// double-ended pull schedule on iterator `it` (0 children, 1 preceding, 2 following) of x;
    /// word: true = front pull, false = back pull
    ObsPull { x: Key, it: u8, word: Vec<bool> },
    /// lookup-path agreement for every position (C11)
    ObsLookup,
    /// pretty print from x; mode 0..3; frag = fragmentation of Tracked's writes;
    /// sink_fail = Some(k): the sink fails at its k-th write call
    ObsPrint { x: Key, mode: u8, frag: u8, sink_fail: Option<u32> },
    /// on a clone: allocate until the arena grows; the slots handed out must be the free set
    Drain,
    /// `par_iter` agrees with `iter` (feature par_iter; otherwise iter vs as_slice)
    ObsPar { threads: u8 },
}

impl Op {
    pub fn name(&self) -> &'static str {
        match self {
            Op::New { .. } => "new_node",
            Op::AppendValue { slow: false, .. } => "append_value",
            Op::AppendValue { slow: true, .. } => "append_value_slow",
            Op::Insert { kind, checked, .. } => match (kind, checked) {
                (Kind::Append, true) => "checked_append",
                (Kind::Append, false) => "append",
                (Kind::Prepend, true) => "checked_prepend",
                (Kind::Prepend, false) => "prepend",
                (Kind::After, true) => "checked_insert_after",
                (Kind::After, false) => "insert_after",
                (Kind::Before, true) => "checked_insert_before",
                (Kind::Before, false) => "insert_before",
            },
            Op::Detach { .. } => "detach",
            Op::Remove { .. } => "remove",
            Op::RemoveSubtree { .. } => "remove_subtree",
            Op::SetPayload { .. } => "set_payload",
            Op::Reserve { .. } => "reserve",
            Op::CycleSlot { .. } => "cycle_slot",
            Op::TreeMacro { .. } => "tree_macro",
            Op::RestartClone => "restart_clone",
            Op::SaveSpare => "save_spare",
            Op::StaleInsert { .. } => "stale_insert",
            Op::CloneFrom => "clone_from",
            Op::ObsCapacity { .. } => "obs_capacity",
            Op::RestartSerde { .. } => "restart_serde",
            Op::Fork { .. } => "fork",
            Op::Clear => "clear",
            Op::ObsTraverse => "obs_traverse",
            Op::ObsPull { .. } => "obs_pull",
            Op::ObsLookup => "obs_lookup",
            Op::ObsPrint { .. } => "obs_print",
            Op::Drain => "drain",
            Op::ObsPar { .. } => "obs_par",
        }
    }
    pub fn is_observation(&self) -> bool {
        matches!(
            self,
            Op::ObsTraverse
                | Op::ObsPull { .. }
                | Op::ObsLookup
                | Op::ObsPrint { .. }
                | Op::Drain
                | Op::ObsPar { .. }
                | Op::ObsCapacity { .. }
        )
    }
}

/// The part of a run's configuration that the *executor* needs (the generator's swarm knobs are
/// not needed to replay an explicit op list).
#[derive(Clone, Debug, PartialEq, Eq, Serialize, Deserialize)]
pub struct ExecCfg {
    /// "tracked" | "u8" | "wide" | "string"
    pub payload: String,
    /// initial `with_capacity` (0 = `Arena::new()`)
    pub capacity: u32,
    /// run a replay twin from the start (C13)
    pub twin: bool,
    /// read-side checks at every step (C09/C02 iterators, C11) instead of only at Obs ops
    pub dense_reads: bool,
}

#[derive(Clone, Debug, Serialize, Deserialize)]
pub struct ViolationRec {
    pub property: String,
    pub step: usize,
    pub kind: String,
    pub op: String,
    pub rel: String,
    pub detail: String,
}

#[derive(Clone, Debug, Serialize, Deserialize)]
pub struct Replay {
    pub engine: String,
    pub engine_version: u32,
    pub property: String,
    pub batch_seed: u64,
    pub run_index: u64,
    pub run_seed: u64,
    pub profile: String,
    pub features: String,
    pub cfg: ExecCfg,
    pub ops: Vec<Op>,
    pub violation: ViolationRec,
    pub minimised: bool,
    pub original_len: usize,
    #[serde(default)]
    pub note: String,
}
