//! Payload types owned by the simulator (seam S5): the harness observes drops and clones and
//! decides how a payload writes itself into a formatter (fragmentation, seam S3).

use std::cell::{Cell, RefCell};
use std::collections::BTreeSet;
use std::fmt;

// ---------------------------------------------------------------------------------------------
// drop ledger (thread-local: one run at a time per worker thread)

#[derive(Default)]
pub struct Ledger {
    next: u64,
    pub dropped: Vec<u64>,
    dropped_set: BTreeSet<u64>,
    pub doubles: Vec<u64>,
}

thread_local! {
    static LEDGER: RefCell<Ledger> = RefCell::new(Ledger::default());
    static FRAG: Cell<u8> = const { Cell::new(0) };
}

pub fn ledger_reset() {
    LEDGER.with(|l| *l.borrow_mut() = Ledger::default());
}
pub fn ledger_mark() -> usize {
    LEDGER.with(|l| l.borrow().dropped.len())
}
pub fn ledger_since(mark: usize) -> Vec<u64> {
    LEDGER.with(|l| l.borrow().dropped[mark..].to_vec())
}
pub fn ledger_created() -> u64 {
    LEDGER.with(|l| l.borrow().next)
}
pub fn ledger_dropped_count() -> usize {
    LEDGER.with(|l| l.borrow().dropped.len())
}
pub fn ledger_is_dropped(s: u64) -> bool {
    LEDGER.with(|l| l.borrow().dropped_set.contains(&s))
}
pub fn ledger_doubles() -> Vec<u64> {
    LEDGER.with(|l| l.borrow().doubles.clone())
}
fn ledger_new_serial() -> u64 {
    LEDGER.with(|l| {
        let mut l = l.borrow_mut();
        l.next += 1;
        l.next
    })
}
fn ledger_drop(s: u64) {
    // try_with: a payload dropped during thread teardown must not panic
    let _ = LEDGER.try_with(|l| {
        if let Ok(mut l) = l.try_borrow_mut() {
            l.dropped.push(s);
            if !l.dropped_set.insert(s) {
                l.doubles.push(s);
            }
        }
    });
}

/// How `Tracked` writes its text into the formatter: 0 whole, 1 per line (newline attached to the
/// line before), 2 per byte, 3 split just before each '\n', 4 split just after each '\n' with the
/// newline on its own, 5 one `write_char` per character.
pub fn set_frag(mode: u8) {
    FRAG.with(|f| f.set(mode));
}
fn frag() -> u8 {
    FRAG.with(|f| f.get())
}

// ---------------------------------------------------------------------------------------------

/// The lines of the rendering of payload `val` in format mode `mode`
/// (0 `{}`, 1 `{:#}`, 2 `{:?}`, 3 `{:#?}`). Non-empty overall, never ends in a newline,
/// interior lines may be empty, no trailing blanks.
pub fn tracked_lines(val: u32, mode: u8) -> Vec<String> {
    let nlines = 1 + (val & 3) as usize;
    let empty_mid = (val >> 2) & 1 == 1 && nlines >= 3;
    let lead = (val >> 3) & 1 == 1;
    // an empty *first* line is inside the statement's domain too ("\nx": non-empty, no final newline)
    let empty_first = (val >> 4) & 3 == 3 && nlines >= 2;
    // one payload in eight renders with multi-byte characters (before and after newlines)
    let tag = if (val >> 6) & 7 == 7 {
        ["p\u{e9}", "P\u{65e5}\u{672c}", "d\u{e9}\u{e9}", "D\u{8a9e}"][mode as usize & 3]
    } else {
        ["p", "P", "d", "D"][mode as usize & 3]
    };
    let mut v = Vec::new();
    for i in 0..nlines {
        if (i == 1 && empty_mid) || (i == 0 && empty_first) {
            v.push(String::new());
        } else if i == 2 && lead {
            v.push(format!("  {}{}:{}", tag, val, i));
        } else {
            v.push(format!("{}{}:{}", tag, val, i));
        }
    }
    v
}

pub struct Tracked {
    pub val: u32,
    pub serial: u64,
}
impl Tracked {
    pub fn new(val: u32) -> Tracked {
        Tracked {
            val,
            serial: ledger_new_serial(),
        }
    }
    fn write(&self, f: &mut fmt::Formatter<'_>, mode: u8) -> fmt::Result {
        // one payload in eight uses CRLF line ends (the '\r' belongs to the line before)
        let sep = if (self.val >> 9) & 7 == 7 { "\r\n" } else { "\n" };
        let text = tracked_lines(self.val, mode).join(sep);
        match frag() {
            1 => {
                for piece in text.split_inclusive('\n') {
                    f.write_str(piece)?;
                }
                Ok(())
            }
            2 => {
                let mut buf = [0u8; 4];
                for c in text.chars() {
                    f.write_str(c.encode_utf8(&mut buf))?;
                }
                Ok(())
            }
            3 => {
                // "abc" | "\ndef" | "\nghi"
                let mut first = true;
                for piece in text.split('\n') {
                    if first {
                        f.write_str(piece)?;
                        first = false;
                    } else {
                        let mut s = String::from("\n");
                        s.push_str(piece);
                        f.write_str(&s)?;
                    }
                }
                Ok(())
            }
            4 => {
                let mut first = true;
                for piece in text.split('\n') {
                    if !first {
                        f.write_str("\n")?;
                    }
                    first = false;
                    // also hand over empty strings: legal for fmt::Write
                    f.write_str(piece)?;
                    f.write_str("")?;
                }
                Ok(())
            }
            5 => {
                // Formatter::write_char for every character, newlines included
                use fmt::Write as _;
                for c in text.chars() {
                    f.write_char(c)?;
                }
                Ok(())
            }
            _ => f.write_str(&text),
        }
    }
}
impl Clone for Tracked {
    fn clone(&self) -> Self {
        Tracked::new(self.val)
    }
}
impl Drop for Tracked {
    fn drop(&mut self) {
        ledger_drop(self.serial);
    }
}
impl PartialEq for Tracked {
    fn eq(&self, o: &Self) -> bool {
        self.val == o.val
    }
}
impl Eq for Tracked {}
impl fmt::Display for Tracked {
    fn fmt(&self, f: &mut fmt::Formatter<'_>) -> fmt::Result {
        self.write(f, if f.alternate() { 1 } else { 0 })
    }
}
impl fmt::Debug for Tracked {
    fn fmt(&self, f: &mut fmt::Formatter<'_>) -> fmt::Result {
        self.write(f, if f.alternate() { 3 } else { 2 })
    }
}

#[cfg(feature = "ix-deser")]
impl serde::Serialize for Tracked {
    fn serialize<S: serde::Serializer>(&self, s: S) -> Result<S::Ok, S::Error> {
        s.serialize_u32(self.val)
    }
}
#[cfg(feature = "ix-deser")]
impl<'de> serde::Deserialize<'de> for Tracked {
    fn deserialize<D: serde::Deserializer<'de>>(d: D) -> Result<Self, D::Error> {
        let v = <u32 as serde::Deserialize>::deserialize(d)?;
        Ok(Tracked::new(v))
    }
}

/// A wide payload (40 bytes, 8-aligned) - changes size_of::<Node<T>>().
#[derive(Clone, PartialEq, Eq, Debug)]
#[cfg_attr(feature = "ix-deser", derive(serde::Serialize, serde::Deserialize))]
pub struct Wide(pub [u64; 5]);
impl fmt::Display for Wide {
    fn fmt(&self, f: &mut fmt::Formatter<'_>) -> fmt::Result {
        write!(f, "w{}", self.0[0])
    }
}

#[cfg(feature = "ix-deser")]
pub trait MaybeSerde: serde::Serialize + serde::de::DeserializeOwned {}
#[cfg(feature = "ix-deser")]
impl<T: serde::Serialize + serde::de::DeserializeOwned> MaybeSerde for T {}
#[cfg(not(feature = "ix-deser"))]
pub trait MaybeSerde {}
#[cfg(not(feature = "ix-deser"))]
impl<T> MaybeSerde for T {}

pub trait Payload: Clone + PartialEq + fmt::Debug + fmt::Display + MaybeSerde + Send + Sync + 'static {
    const NAME: &'static str;
    fn make(val: u32) -> Self;
    /// canonical text used to compare payloads with the model
    fn canon(&self) -> String;
    fn canon_of(val: u32) -> String;
    fn serial(&self) -> Option<u64> {
        None
    }
}

impl Payload for Tracked {
    const NAME: &'static str = "tracked";
    fn make(val: u32) -> Self {
        Tracked::new(val)
    }
    fn canon(&self) -> String {
        self.val.to_string()
    }
    fn canon_of(val: u32) -> String {
        val.to_string()
    }
    fn serial(&self) -> Option<u64> {
        Some(self.serial)
    }
}
impl Payload for u8 {
    const NAME: &'static str = "u8";
    fn make(val: u32) -> Self {
        val as u8
    }
    fn canon(&self) -> String {
        self.to_string()
    }
    fn canon_of(val: u32) -> String {
        (val as u8).to_string()
    }
}
impl Payload for Wide {
    const NAME: &'static str = "wide";
    fn make(val: u32) -> Self {
        let v = val as u64;
        Wide([v, v ^ 1, v.wrapping_mul(3), !v, v << 7])
    }
    fn canon(&self) -> String {
        format!("{:?}", self.0)
    }
    fn canon_of(val: u32) -> String {
        Self::make(val).canon()
    }
}
/// zero-sized payload
#[derive(Clone, PartialEq, Eq, Debug)]
#[cfg_attr(feature = "ix-deser", derive(serde::Serialize, serde::Deserialize))]
pub struct Unit;
impl fmt::Display for Unit {
    fn fmt(&self, f: &mut fmt::Formatter<'_>) -> fmt::Result {
        f.write_str("u")
    }
}
impl Payload for Unit {
    const NAME: &'static str = "unit";
    fn make(_val: u32) -> Self {
        Unit
    }
    fn canon(&self) -> String {
        "()".into()
    }
    fn canon_of(_val: u32) -> String {
        "()".into()
    }
}

/// a large inline payload (256 bytes)
#[derive(Clone, PartialEq, Eq, Debug)]
#[cfg_attr(feature = "ix-deser", derive(serde::Serialize, serde::Deserialize))]
pub struct Big(pub [u64; 32]);
impl fmt::Display for Big {
    fn fmt(&self, f: &mut fmt::Formatter<'_>) -> fmt::Result {
        write!(f, "big{}\n{}", self.0[0], self.0[31])
    }
}
impl Payload for Big {
    const NAME: &'static str = "big";
    fn make(val: u32) -> Self {
        let mut a = [0u64; 32];
        for (i, x) in a.iter_mut().enumerate() {
            *x = (val as u64).wrapping_mul(i as u64 + 1) ^ (i as u64);
        }
        Big(a)
    }
    fn canon(&self) -> String {
        format!("{}:{}:{}", self.0[0], self.0[1], self.0[31])
    }
    fn canon_of(val: u32) -> String {
        Self::make(val).canon()
    }
}

/// a payload that serialises to `null` for some values (transparent `Option`)
#[derive(Clone, PartialEq, Eq, Debug)]
#[cfg_attr(feature = "ix-deser", derive(serde::Serialize, serde::Deserialize))]
pub struct Opt(pub Option<u32>);
impl fmt::Display for Opt {
    fn fmt(&self, f: &mut fmt::Formatter<'_>) -> fmt::Result {
        match self.0 {
            None => f.write_str("none"),
            Some(v) => write!(f, "some{}", v),
        }
    }
}
impl Payload for Opt {
    const NAME: &'static str = "opt";
    fn make(val: u32) -> Self {
        Opt(if val % 3 == 0 { None } else { Some(val) })
    }
    fn canon(&self) -> String {
        format!("{:?}", self.0)
    }
    fn canon_of(val: u32) -> String {
        Self::make(val).canon()
    }
}

impl Payload for String {
    const NAME: &'static str = "string";
    fn make(val: u32) -> Self {
        format!("s{}", val)
    }
    fn canon(&self) -> String {
        self.clone()
    }
    fn canon_of(val: u32) -> String {
        format!("s{}", val)
    }
}
