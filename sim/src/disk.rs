//! Simulated disk (seam S3 for C16): byte sink/source whose writes and reads may be short or
//! interrupted (legal behaviour the round trip must survive) or torn (observed only).

use crate::prng::Rng;
use std::io;

#[derive(Default, Clone, Debug)]
pub struct IoStats {
    pub short_writes: u64,
    pub short_reads: u64,
    pub eintr: u64,
    pub torn: u64,
}

pub struct Faults {
    pub rng: Rng,
    pub short: bool,
    pub eintr: bool,
    /// fail for good once this many bytes are on the disk
    pub torn_at: Option<usize>,
    pub stats: IoStats,
    last_was_eintr: bool,
}

impl Faults {
    pub fn none() -> Faults {
        Faults {
            rng: Rng::new(0),
            short: false,
            eintr: false,
            torn_at: None,
            stats: IoStats::default(),
            last_was_eintr: false,
        }
    }
    pub fn from_seed(io: u64) -> Faults {
        if io == 0 {
            return Faults::none();
        }
        let mut rng = Rng::new(io);
        let short = rng.chance(3, 4);
        let eintr = rng.chance(1, 2);
        Faults {
            rng,
            short,
            eintr,
            torn_at: None,
            stats: IoStats::default(),
            last_was_eintr: false,
        }
    }
    fn interrupt(&mut self) -> bool {
        // never twice in a row: retry loops must make progress
        if self.eintr && !self.last_was_eintr && self.rng.chance(1, 5) {
            self.last_was_eintr = true;
            self.stats.eintr += 1;
            return true;
        }
        self.last_was_eintr = false;
        false
    }
    fn cut(&mut self, n: usize, is_write: bool) -> usize {
        if self.short && n > 1 && self.rng.chance(1, 2) {
            let k = 1 + self.rng.usize_below(n - 1);
            if is_write {
                self.stats.short_writes += 1;
            } else {
                self.stats.short_reads += 1;
            }
            k
        } else {
            n
        }
    }
}

pub struct DiskWriter<'a> {
    pub data: Vec<u8>,
    pub f: &'a mut Faults,
}
impl io::Write for DiskWriter<'_> {
    fn write(&mut self, buf: &[u8]) -> io::Result<usize> {
        if buf.is_empty() {
            return Ok(0);
        }
        if let Some(t) = self.f.torn_at {
            if self.data.len() >= t {
                self.f.stats.torn += 1;
                return Err(io::Error::new(io::ErrorKind::Other, "simulated disk failure"));
            }
        }
        if self.f.interrupt() {
            return Err(io::Error::new(io::ErrorKind::Interrupted, "simulated EINTR"));
        }
        let mut n = self.f.cut(buf.len(), true);
        if let Some(t) = self.f.torn_at {
            n = n.min(t - self.data.len());
        }
        self.data.extend_from_slice(&buf[..n]);
        Ok(n)
    }
    fn flush(&mut self) -> io::Result<()> {
        Ok(())
    }
}

pub struct DiskReader<'a> {
    pub data: &'a [u8],
    pub pos: usize,
    pub f: &'a mut Faults,
}
impl io::Read for DiskReader<'_> {
    fn read(&mut self, buf: &mut [u8]) -> io::Result<usize> {
        if buf.is_empty() || self.pos >= self.data.len() {
            return Ok(0);
        }
        if self.f.interrupt() {
            return Err(io::Error::new(io::ErrorKind::Interrupted, "simulated EINTR"));
        }
        let avail = (self.data.len() - self.pos).min(buf.len());
        let n = self.f.cut(avail, false);
        buf[..n].copy_from_slice(&self.data[self.pos..self.pos + n]);
        self.pos += n;
        Ok(n)
    }
}
