//! Engine `abyss`: very deep forests (10^4 .. 10^5 levels) on a thread with the standard library's
//! default stack (2 MiB), in an unoptimised build (`dev`) and in the release build.
//!
//! What it adds to `histsim` (whose forests have at most 1300 nodes, in optimised builds only):
//! "every other valid call succeeds without panicking, in debug and release builds alike" (C05) and
//! the effect clauses of C03 / C04 are statements about *every* reachable forest. A call whose
//! stack use grows with the depth of the tree ends the process (stack overflow = abort, not even a
//! panic) - the one "crash" of this library that `catch_unwind` cannot turn into a value. So every
//! run is a child process: the parent decides seeds, reads the verdict from the exit status, and
//! minimises (probe list, then depth) by spawning more children.
//!
//! One run = a seeded chain of `depth` nodes (each level made by `append_value` or by
//! `new_node` + `checked_append`, some levels with a few side leaves), then a seeded list of
//! probes. Which probe kinds are drawn depends on the property (C05: refused and possible inserts,
//! C03: placement, cut and re-join, C04: remove / remove_subtree). Expectations are computed from
//! the chain bookkeeping (positions, side-leaf counts), never from the library.

use crate::ops::{Kind, KINDS};
use crate::prng::{run_seed, Rng};
use crate::util;
use indextree::{Arena, NodeEdge, NodeId};
use serde::{Deserialize, Serialize};
use std::collections::BTreeMap;
use std::time::{Duration, Instant};

pub const STACK_BYTES: usize = 2 * 1024 * 1024;

#[derive(Clone, Debug, PartialEq, Eq, Serialize, Deserialize)]
pub enum Probe {
    /// `chain[at].<kind>(chain[anc])` with anc <= at: impossible (same node / ancestor); must be
    /// refused (checked: Err with a reason that applies; unchecked: panic), arena == snapshot
    Refuse { kind: Kind, checked: bool, anc: u32, at: u32 },
    /// a fresh node is inserted with `kind` relative to chain[at]; must succeed and sit exactly
    /// there; then it is removed again and the neighbours must be linked as before
    Place { kind: Kind, checked: bool, at: u32 },
    /// detach chain[at] (two trees now), then append it back under chain[at-1]
    CutJoin { at: u32, checked: bool },
    /// remove chain[at]: its children take its place under chain[at-1]
    Remove { at: u32 },
    /// remove_subtree(chain[at]): exactly the nodes at and below it are gone
    RemoveSubtree { at: u32 },
    /// ancestors / descendants / traverse / reverse_traverse counts from chain[at]
    Walk { at: u32 },
}

impl Probe {
    pub fn name(&self) -> String {
        match self {
            Probe::Refuse { kind, checked, .. } => format!("refuse_{}{}", if *checked { "checked_" } else { "" }, kind.name()),
            Probe::Place { kind, checked, .. } => format!("place_{}{}", if *checked { "checked_" } else { "" }, kind.name()),
            Probe::CutJoin { checked, .. } => format!("cut_join{}", if *checked { "_checked" } else { "" }),
            Probe::Remove { .. } => "remove".into(),
            Probe::RemoveSubtree { .. } => "remove_subtree".into(),
            Probe::Walk { .. } => "walk".into(),
        }
    }
}

#[derive(Clone, Debug, PartialEq, Eq, Serialize, Deserialize)]
pub struct Spec {
    pub depth: u32,
    /// every `side_every`-th level gets 1..3 side leaves (0 = none)
    pub side_every: u32,
    /// seed of the per-level choices (fast path / slow path, side leaves before or after)
    pub build_seed: u64,
    pub probes: Vec<Probe>,
}

pub fn depth_range(tier: &str) -> (u64, u64) {
    if tier == "thorough" {
        (12_000, 250_000)
    } else {
        (12_000, 70_000)
    }
}

pub fn gen_spec(prop: &str, tier: &str, batch_seed: u64, idx: u64) -> Spec {
    let mut r = Rng::new(run_seed(batch_seed, &format!("abyss-{}", prop), idx));
    let (lo, hi) = depth_range(tier);
    // a third of the runs near the top of the range
    let depth = if r.chance(1, 3) { r.range(hi - hi / 8, hi) } else { r.range(lo, hi) } as u32;
    let side_every = *r.pick(&[0u32, 0, 7, 64, 1000]);
    let build_seed = r.next_u64();
    let n = r.range(6, 14) as usize;
    let mut probes = Vec::new();
    // positions: biased to the far end of the chain (deep), the top, and anywhere
    let pos = |r: &mut Rng| -> u32 {
        let d = depth as u64;
        (match r.below(4) {
            0 => d - 1 - r.below(4.min(d)),
            1 => r.below(4.min(d)),
            2 => d - 1 - r.below((d / 10).max(1)),
            _ => r.below(d),
        }) as u32
    };
    for _ in 0..n {
        let kind = *r.pick(&KINDS);
        let checked = r.coin();
        let p = match prop {
            "C05" => match r.below(10) {
                0..=5 => {
                    let at = pos(&mut r);
                    let anc = match r.below(4) {
                        0 => at,
                        1 => r.below(4.min(at as u64 + 1)) as u32,
                        2 => at.saturating_sub(r.below(3) as u32),
                        _ => r.below(at as u64 + 1) as u32,
                    };
                    Probe::Refuse { kind, checked, anc, at }
                }
                6..=8 => Probe::Place { kind, checked, at: pos(&mut r) },
                _ => Probe::Walk { at: pos(&mut r) },
            },
            "C03" => match r.below(10) {
                0..=4 => Probe::Place { kind, checked, at: pos(&mut r) },
                5..=7 => Probe::CutJoin { at: pos(&mut r), checked },
                _ => Probe::Walk { at: pos(&mut r) },
            },
            _ => match r.below(10) {
                0..=4 => Probe::Remove { at: pos(&mut r) },
                5..=6 => Probe::Walk { at: pos(&mut r) },
                7 => Probe::CutJoin { at: pos(&mut r), checked },
                _ => Probe::Place { kind, checked, at: pos(&mut r) },
            },
        };
        probes.push(p);
    }
    if prop == "C04" {
        // the subtree removal comes last (it takes the depth away): near the top, so that the
        // removed subtree is (almost) the whole chain
        probes.push(Probe::RemoveSubtree { at: 1 + r.below(3) as u32 });
    } else if r.chance(1, 3) {
        probes.push(Probe::RemoveSubtree { at: 1 + r.below(depth as u64 / 2) as u32 });
    }
    Spec { depth, side_every, build_seed, probes }
}

pub struct Fail {
    pub probe: usize,
    pub kind: &'static str,
    pub detail: String,
}

struct Deep {
    arena: Arena<u32>,
    chain: Vec<NodeId>,
    /// number of side leaves (children other than the next chain node) of chain[i]
    sides: Vec<u32>,
}

fn live_count(a: &Arena<u32>) -> usize {
    a.iter().filter(|n| !n.is_removed()).count()
}

fn build(spec: &Spec) -> Result<Deep, String> {
    let mut r = Rng::new(spec.build_seed);
    let mut arena: Arena<u32> = if r.coin() { Arena::new() } else { Arena::with_capacity(spec.depth as usize / 2) };
    let root = arena.new_node(0);
    let mut chain = vec![root];
    let mut sides = vec![0u32];
    for i in 1..spec.depth.max(1) {
        let cur = *chain.last().unwrap();
        let with_sides = spec.side_every != 0 && i % spec.side_every == 0;
        let before = if with_sides { r.below(3) as u32 } else { 0 };
        let after = if with_sides { r.below(2) as u32 } else { 0 };
        for _ in 0..before {
            cur.append_value(1_000_000 + i, &mut arena);
        }
        // checked_append walks all ancestors (O(depth)): about 200 levels per chain use it
        let c = if r.below(spec.depth as u64) >= 200 {
            cur.append_value(i, &mut arena)
        } else {
            let n = arena.new_node(i);
            cur.checked_append(n, &mut arena).map_err(|e| format!("building level {}: checked_append of a fresh node failed: {:?}", i, e))?;
            n
        };
        for _ in 0..after {
            cur.append_value(2_000_000 + i, &mut arena);
        }
        *sides.last_mut().unwrap() = before + after;
        chain.push(c);
        sides.push(0);
    }
    Ok(Deep { arena, chain, sides })
}

fn err_name<E: std::fmt::Debug>(e: &E) -> String {
    format!("{:?}", e)
}

fn do_insert(kind: Kind, checked: bool, a: NodeId, b: NodeId, arena: &mut Arena<u32>) -> Result<Result<(), String>, String> {
    // outer Err = panic (message), inner Err = the checked form's error (variant name)
    util::catch(|| {
        if checked {
            match kind {
                Kind::Append => a.checked_append(b, arena),
                Kind::Prepend => a.checked_prepend(b, arena),
                Kind::After => a.checked_insert_after(b, arena),
                Kind::Before => a.checked_insert_before(b, arena),
            }
            .map_err(|e| err_name(&e))
        } else {
            match kind {
                Kind::Append => a.append(b, arena),
                Kind::Prepend => a.prepend(b, arena),
                Kind::After => a.insert_after(b, arena),
                Kind::Before => a.insert_before(b, arena),
            }
            Ok(())
        }
    })
}

impl Deep {
    /// nodes at and below chain[at]
    fn below(&self, at: usize) -> usize {
        self.sides[at..].iter().map(|s| 1 + *s as usize).sum()
    }

    fn probe(&mut self, p: &Probe) -> Result<&'static str, (&'static str, String)> {
        let len = self.chain.len();
        if len < 4 {
            return Ok("skipped_short");
        }
        match p {
            Probe::Refuse { kind, checked, anc, at } => {
                let at = *at as usize % len;
                let anc = (*anc as usize).min(at);
                // a sibling insert next to the root with the root itself is the same-node case only
                let (a, b) = (self.chain[at], self.chain[anc]);
                let snap = self.arena.clone();
                let res = do_insert(*kind, *checked, a, b, &mut self.arena);
                let what = format!("chain[{}].{}{}(chain[{}]) on a chain of {} levels", at, if *checked { "checked_" } else { "" }, kind.name(), anc, len);
                match (&res, *checked) {
                    (Ok(Ok(())), _) => return Err(("impossible_insert_accepted", format!("{} returned normally", what))),
                    (Err(m), true) => return Err(("checked_insert_panicked", format!("{} panicked: {}", what, m))),
                    (Ok(Err(e)), true) => {
                        let want = if anc == at { "Self" } else { "Ancestor" };
                        if !e.ends_with(want) {
                            return Err(("refusal_reason_does_not_apply", format!("{} = Err({}), the reason that applies is *{}", what, e, want)));
                        }
                    }
                    (Ok(Err(_)), false) => unreachable!(),
                    (Err(_), false) => {}
                }
                if self.arena != snap {
                    return Err(("arena_changed_by_refused_insert", format!("{}: the arena differs from the snapshot taken before the call", what)));
                }
                Ok(if anc == at { "refused_self" } else { "refused_ancestor" })
            }
            Probe::Place { kind, checked, at } => {
                let at = *at as usize % len;
                let t = self.chain[at];
                let before_live = live_count(&self.arena);
                let n = self.arena.new_node(9_000_000);
                let (old_first, old_last) = (self.arena[t].first_child(), self.arena[t].last_child());
                let (old_prev, old_next, old_parent) = (self.arena[t].previous_sibling(), self.arena[t].next_sibling(), self.arena[t].parent());
                let what = format!("chain[{}].{}{}(fresh node) on a chain of {} levels", at, if *checked { "checked_" } else { "" }, kind.name(), len);
                match do_insert(*kind, *checked, t, n, &mut self.arena) {
                    Ok(Ok(())) => {}
                    Ok(Err(e)) => return Err(("possible_insert_refused", format!("{} = Err({})", what, e))),
                    Err(m) => return Err(("possible_insert_panicked", format!("{} panicked: {}", what, m))),
                }
                let nn = &self.arena[n];
                let (want_parent, want_prev, want_next) = match kind {
                    Kind::Append => (Some(t), old_last, None),
                    Kind::Prepend => (Some(t), None, old_first),
                    Kind::After => (old_parent, Some(t), old_next),
                    Kind::Before => (old_parent, old_prev, Some(t)),
                };
                if nn.parent() != want_parent || nn.previous_sibling() != want_prev || nn.next_sibling() != want_next || nn.first_child().is_some() {
                    return Err((
                        "node_not_at_requested_place",
                        format!(
                            "{}: parent {:?} prev {:?} next {:?}, expected parent {:?} prev {:?} next {:?}",
                            what,
                            nn.parent(),
                            nn.previous_sibling(),
                            nn.next_sibling(),
                            want_parent,
                            want_prev,
                            want_next
                        ),
                    ));
                }
                let want_depth = match kind {
                    Kind::Append | Kind::Prepend => at + 2,
                    _ => at + 1,
                };
                let got_depth = n.ancestors(&self.arena).count();
                if got_depth != want_depth {
                    return Err(("node_not_at_requested_place", format!("{}: the new node has {} ancestors-or-self, expected {}", what, got_depth, want_depth)));
                }
                // the chain below and above is untouched
                let far = *self.chain.last().unwrap();
                if far.ancestors(&self.arena).count() != len {
                    return Err(("frame_changed", format!("{}: the deepest node no longer has {} ancestors-or-self", what, len)));
                }
                // take it out again
                if let Err(m) = util::catch(|| n.remove(&mut self.arena)) {
                    return Err(("remove_panicked", format!("remove of the leaf placed by {} panicked: {}", what, m)));
                }
                let tt = &self.arena[t];
                if tt.first_child() != old_first || tt.last_child() != old_last || tt.previous_sibling() != old_prev || tt.next_sibling() != old_next || tt.parent() != old_parent {
                    return Err(("gap_not_closed", format!("after removing the leaf placed by {} the target's links differ from before", what)));
                }
                if live_count(&self.arena) != before_live {
                    return Err(("gap_not_closed", format!("after removing the leaf placed by {} the live count is {} (was {})", what, live_count(&self.arena), before_live)));
                }
                Ok("placed_and_removed")
            }
            Probe::CutJoin { at, checked } => {
                let at = (*at as usize % len).max(1);
                let x = self.chain[at];
                let up = self.chain[at - 1];
                let far = *self.chain.last().unwrap();
                if let Err(m) = util::catch(|| x.detach(&mut self.arena)) {
                    return Err(("detach_panicked", format!("detach(chain[{}]) of {} levels panicked: {}", at, len, m)));
                }
                let xn = &self.arena[x];
                if xn.parent().is_some() || xn.previous_sibling().is_some() || xn.next_sibling().is_some() {
                    return Err(("detached_node_not_a_root", format!("detach(chain[{}]): the node still has parent or siblings", at)));
                }
                let c = up.children(&self.arena).count();
                if c != self.sides[at - 1] as usize {
                    return Err(("gap_not_closed", format!("detach(chain[{}]): former parent has {} children, expected {}", at, c, self.sides[at - 1])));
                }
                let d = far.ancestors(&self.arena).count();
                if d != len - at {
                    return Err(("subtree_not_intact", format!("detach(chain[{}]): deepest node has {} ancestors-or-self, expected {}", at, d, len - at)));
                }
                match do_insert(Kind::Append, *checked, up, x, &mut self.arena) {
                    Ok(Ok(())) => {}
                    Ok(Err(e)) => return Err(("possible_insert_refused", format!("re-append of the detached chain[{}] = Err({})", at, e))),
                    Err(m) => return Err(("possible_insert_panicked", format!("re-append of the detached chain[{}] panicked: {}", at, m))),
                }
                if self.arena[up].last_child() != Some(x) || self.arena[x].parent() != Some(up) {
                    return Err(("node_not_at_requested_place", format!("re-append of chain[{}]: not the last child of chain[{}]", at, at - 1)));
                }
                let d = far.ancestors(&self.arena).count();
                if d != len {
                    return Err(("subtree_not_intact", format!("re-append of chain[{}]: deepest node has {} ancestors-or-self, expected {}", at, d, len)));
                }
                Ok("cut_and_joined")
            }
            Probe::Remove { at } => {
                let at = (*at as usize % len).clamp(1, len - 2);
                let x = self.chain[at];
                let up = self.chain[at - 1];
                let down = self.chain[at + 1];
                let before_live = live_count(&self.arena);
                if let Err(m) = util::catch(|| x.remove(&mut self.arena)) {
                    return Err(("remove_panicked", format!("remove(chain[{}]) of {} levels panicked: {}", at, len, m)));
                }
                if !x.is_removed(&self.arena) {
                    return Err(("removed_node_still_there", format!("remove(chain[{}]): is_removed(id) = false", at)));
                }
                if self.arena[down].parent() != Some(up) {
                    return Err(("children_not_reparented", format!("remove(chain[{}]): its chain child has parent {:?}, expected chain[{}]", at, self.arena[down].parent(), at - 1)));
                }
                let want = (self.sides[at - 1] + self.sides[at] + 1) as usize;
                let c = up.children(&self.arena).count();
                if c != want {
                    return Err(("children_not_reparented", format!("remove(chain[{}]): former parent has {} children, expected {}", at, c, want)));
                }
                if live_count(&self.arena) != before_live - 1 {
                    return Err(("wrong_set_removed", format!("remove(chain[{}]): live count {} -> {}", at, before_live, live_count(&self.arena))));
                }
                self.sides[at - 1] += self.sides[at];
                self.chain.remove(at);
                self.sides.remove(at);
                let far = *self.chain.last().unwrap();
                let d = far.ancestors(&self.arena).count();
                if d != len - 1 {
                    return Err(("children_not_reparented", format!("remove(chain[{}]): deepest node has {} ancestors-or-self, expected {}", at, d, len - 1)));
                }
                Ok("removed_one")
            }
            Probe::RemoveSubtree { at } => {
                let at = (*at as usize % len).max(1);
                let x = self.chain[at];
                let up = self.chain[at - 1];
                let want_gone = self.below(at);
                let before_live = live_count(&self.arena);
                if let Err(m) = util::catch(|| x.remove_subtree(&mut self.arena)) {
                    return Err(("remove_subtree_panicked", format!("remove_subtree(chain[{}]) of {} levels panicked: {}", at, len, m)));
                }
                let after_live = live_count(&self.arena);
                if before_live - after_live != want_gone {
                    return Err(("wrong_set_removed", format!("remove_subtree(chain[{}]): {} nodes gone, expected {}", at, before_live.wrapping_sub(after_live), want_gone)));
                }
                for (i, n) in self.chain.iter().enumerate() {
                    if n.is_removed(&self.arena) != (i >= at) {
                        return Err(("wrong_set_removed", format!("remove_subtree(chain[{}]): chain[{}].is_removed = {}", at, i, n.is_removed(&self.arena))));
                    }
                }
                let c = up.children(&self.arena).count();
                if c != self.sides[at - 1] as usize {
                    return Err(("gap_not_closed", format!("remove_subtree(chain[{}]): former parent has {} children, expected {}", at, c, self.sides[at - 1])));
                }
                self.chain.truncate(at);
                self.sides.truncate(at);
                *self.sides.last_mut().unwrap() = c as u32;
                Ok("removed_subtree")
            }
            Probe::Walk { at } => {
                let at = *at as usize % len;
                let x = self.chain[at];
                let what = format!("from chain[{}] of {} levels", at, len);
                let r = util::catch(|| {
                    let a = x.ancestors(&self.arena).count();
                    let top = x.ancestors(&self.arena).last();
                    let d = x.descendants(&self.arena).count();
                    let (mut s, mut e) = (0usize, 0usize);
                    for ev in x.traverse(&self.arena) {
                        match ev {
                            NodeEdge::Start(_) => s += 1,
                            NodeEdge::End(_) => e += 1,
                        }
                    }
                    let rv = x.reverse_traverse(&self.arena).count();
                    (a, top, d, s, e, rv)
                });
                let (a, top, d, s, e, rv) = match r {
                    Ok(v) => v,
                    Err(m) => return Err(("traversal_panicked", format!("a traversal {} panicked: {}", what, m))),
                };
                let below = self.below(at);
                if a != at + 1 || top != Some(self.chain[0]) {
                    return Err(("wrong_ancestors", format!("ancestors {}: {} items ending at {:?}, expected {} ending at the root", what, a, top, at + 1)));
                }
                if d != below || s != below || e != below || rv != 2 * below {
                    return Err((
                        "wrong_descendants",
                        format!("{}: descendants {} traverse starts {} ends {} reverse_traverse {}, expected {} / {} / {} / {}", what, d, s, e, rv, below, below, below, 2 * below),
                    ));
                }
                Ok("walked")
            }
        }
    }
}

/// Execute one spec on this thread. Prints one `ABYSS-PROBE <name> <outcome>` line per probe.
pub fn exec(spec: &Spec) -> Result<(), Fail> {
    let mut d = match build(spec) {
        Ok(d) => d,
        Err(m) => return Err(Fail { probe: 0, kind: "possible_insert_refused", detail: m }),
    };
    if d.chain.len() != spec.depth.max(1) as usize {
        return Err(Fail { probe: 0, kind: "harness", detail: "chain length".into() });
    }
    let far = *d.chain.last().unwrap();
    let got = far.ancestors(&d.arena).count();
    if got != d.chain.len() {
        return Err(Fail { probe: 0, kind: "wrong_ancestors", detail: format!("after building {} levels the deepest node has {} ancestors-or-self", d.chain.len(), got) });
    }
    for (i, p) in spec.probes.iter().enumerate() {
        match d.probe(p) {
            Ok(o) => println!("ABYSS-PROBE {} {}", p.name(), o),
            Err((kind, detail)) => {
                println!("ABYSS-PROBE {} {}", p.name(), kind);
                return Err(Fail { probe: i, kind, detail });
            }
        }
    }
    Ok(())
}

// ------------------------------------------------------------------------------------------------
// child process: `ixsim abyss-one (--file F | --prop P --tier T --seed S --index I)`

pub fn cmd_one(args: &[String]) -> i32 {
    let spec = if let Some(f) = crate::arg(args, "--file") {
        let v: serde_json::Value = match std::fs::read_to_string(f).map_err(|e| e.to_string()).and_then(|t| serde_json::from_str(&t).map_err(|e| e.to_string())) {
            Ok(v) => v,
            Err(e) => {
                println!("HARNESS-ERROR: cannot load {}: {}", f, e);
                return 2;
            }
        };
        match serde_json::from_value::<Spec>(v["spec"].clone()) {
            Ok(s) => s,
            Err(e) => {
                println!("HARNESS-ERROR: no spec in {}: {}", f, e);
                return 2;
            }
        }
    } else {
        let prop = crate::arg(args, "--prop").unwrap_or("C05");
        let tier = crate::arg(args, "--tier").unwrap_or("quick");
        let seed: u64 = crate::arg(args, "--seed").and_then(|s| s.parse().ok()).unwrap_or(1);
        let idx: u64 = crate::arg(args, "--index").and_then(|s| s.parse().ok()).unwrap_or(0);
        gen_spec(prop, tier, seed, idx)
    };
    // the scenario runs on a thread with the standard library's default stack size, whatever
    // RUST_MIN_STACK or the main thread's limit say
    let h = std::thread::Builder::new().name("abyss-run".into()).stack_size(STACK_BYTES).spawn(move || match util::catch(|| exec(&spec)) {
        Ok(Ok(())) => 0,
        Ok(Err(f)) => {
            println!("ABYSS-VIOL {} {} {}", f.probe, f.kind, f.detail.replace('\n', " "));
            if f.kind == "harness" {
                2
            } else {
                1
            }
        }
        Err(m) => {
            println!("HARNESS-ERROR: panic in the abyss harness: {}", m);
            2
        }
    });
    match h.map(|h| h.join()) {
        Ok(Ok(c)) => c,
        _ => 2,
    }
}

// ------------------------------------------------------------------------------------------------
// parent

#[derive(Clone, Debug, PartialEq)]
pub enum Verdict {
    Held,
    /// (probe index, kind, detail)
    Viol(usize, String, String),
    /// the child was killed by a signal / aborted: (description)
    Abort(String),
    Timeout,
    Harness(String),
}

impl Verdict {
    fn class(&self) -> String {
        match self {
            Verdict::Held => "held".into(),
            Verdict::Viol(_, k, _) => k.clone(),
            Verdict::Abort(_) => "process_aborted".into(),
            Verdict::Timeout => "call_did_not_return".into(),
            Verdict::Harness(_) => "harness".into(),
        }
    }
}

pub struct ChildOut {
    pub verdict: Verdict,
    pub probes: Vec<(String, String)>,
}

fn run_child(extra: &[String], secs: u64) -> ChildOut {
    let exe = std::env::current_exe().unwrap();
    let mut cmd = std::process::Command::new(exe);
    cmd.arg("abyss-one").args(extra).env_remove("RUST_MIN_STACK");
    let out = match crate::output_with_timeout(&mut cmd, secs) {
        Ok(o) => o,
        Err(e) => return ChildOut { verdict: Verdict::Harness(format!("cannot spawn: {}", e)), probes: vec![] },
    };
    let so = String::from_utf8_lossy(&out.stdout).to_string();
    let se = String::from_utf8_lossy(&out.stderr).to_string();
    let mut probes = Vec::new();
    let mut viol = None;
    let mut herr = None;
    for l in so.lines() {
        if let Some(r) = l.strip_prefix("ABYSS-PROBE ") {
            let mut it = r.split_whitespace();
            probes.push((it.next().unwrap_or("").to_string(), it.next().unwrap_or("").to_string()));
        } else if let Some(r) = l.strip_prefix("ABYSS-VIOL ") {
            let mut it = r.splitn(3, ' ');
            let i = it.next().and_then(|x| x.parse().ok()).unwrap_or(0);
            viol = Some((i, it.next().unwrap_or("").to_string(), it.next().unwrap_or("").to_string()));
        } else if l.starts_with("HARNESS-ERROR") {
            herr = Some(l.to_string());
        }
    }
    let verdict = match out.status.code() {
        Some(0) => Verdict::Held,
        Some(1) => match viol {
            Some((i, k, d)) => Verdict::Viol(i, k, d),
            None => Verdict::Harness("exit 1 without a violation line".into()),
        },
        Some(c) => Verdict::Harness(herr.unwrap_or_else(|| format!("exit {}", c))),
        None => {
            // killed by a signal: stack overflow (SIGABRT/SIGSEGV with the runtime's message),
            // allocation failure abort, or our own timeout kill (SIGKILL)
            use std::os::unix::process::ExitStatusExt;
            let sig = out.status.signal().unwrap_or(0);
            if sig == 9 {
                Verdict::Timeout
            } else {
                let msg = se.lines().find(|l| l.contains("overflowed its stack") || l.contains("memory allocation")).unwrap_or("").trim().to_string();
                Verdict::Abort(format!("signal {} after {} completed probes: {}", sig, probes.len(), if msg.is_empty() { "(no runtime message)" } else { &msg }))
            }
        }
    };
    ChildOut { verdict, probes }
}

fn write_spec_file(path: &str, prop: &str, tier: &str, seed: u64, idx: u64, profile: &str, spec: &Spec, v: &Verdict, minimised: bool, orig: &Spec) {
    let (probe, detail) = match v {
        Verdict::Viol(i, _, d) => (*i as i64, d.clone()),
        Verdict::Abort(d) => (-1, d.clone()),
        Verdict::Timeout => (-1, "the child did not finish within the time limit".into()),
        _ => (-1, String::new()),
    };
    let j = serde_json::json!({
        "engine": "abyss", "engine_version": crate::run::ENGINE_VERSION, "property": prop, "tier": tier,
        "batch_seed": seed, "run_index": idx, "profile": profile, "features": crate::features_built(),
        "stack_bytes": STACK_BYTES,
        "spec": spec,
        "violation": {"property": prop, "kind": v.class(), "probe": probe, "detail": detail},
        "minimised": minimised, "original_depth": orig.depth, "original_probes": orig.probes.len(),
        "note": "one child process per execution; the scenario runs on a thread with a 2 MiB stack (std default). Replay: ./check <ID> --replay <this file>",
    });
    if let Some(d) = std::path::Path::new(path).parent() {
        let _ = std::fs::create_dir_all(d);
    }
    let _ = std::fs::write(path, serde_json::to_string_pretty(&j).unwrap());
}

fn run_spec(spec: &Spec, scratch: &str, secs: u64) -> Verdict {
    let j = serde_json::json!({ "spec": spec });
    let _ = std::fs::write(scratch, j.to_string());
    run_child(&["--file".to_string(), scratch.to_string()], secs).verdict
}

/// Shrink: one probe alone (else the prefix up to the failing probe), then the smallest depth.
fn minimise(spec: &Spec, v: &Verdict, scratch: &str) -> (Spec, Verdict, u32) {
    let class = v.class();
    let mut best = spec.clone();
    let mut bestv = v.clone();
    let mut execs = 0u32;
    let t0 = Instant::now();
    let mut try_spec = |s: &Spec, execs: &mut u32| -> Option<Verdict> {
        if t0.elapsed() > Duration::from_secs(120) {
            return None;
        }
        *execs += 1;
        let r = run_spec(s, scratch, 60);
        if r.class() == class {
            Some(r)
        } else {
            None
        }
    };
    if let Verdict::Viol(i, _, _) = v {
        let mut s = best.clone();
        s.probes.truncate(*i + 1);
        if let Some(r) = try_spec(&s, &mut execs) {
            best = s;
            bestv = r;
        }
    }
    for k in (0..best.probes.len()).rev() {
        if best.probes.len() == 1 {
            break;
        }
        let mut s = best.clone();
        s.probes = vec![best.probes[k].clone()];
        if let Some(r) = try_spec(&s, &mut execs) {
            best = s;
            bestv = r;
            break;
        }
    }
    if best.side_every != 0 {
        let mut s = best.clone();
        s.side_every = 0;
        if let Some(r) = try_spec(&s, &mut execs) {
            best = s;
            bestv = r;
        }
    }
    // smallest failing depth (monotone for stack depth; a heuristic otherwise)
    let (mut lo, mut hi) = (4u32, best.depth);
    while lo < hi {
        let mid = lo + (hi - lo) / 2;
        let mut s = best.clone();
        s.depth = mid;
        match try_spec(&s, &mut execs) {
            Some(r) => {
                hi = mid;
                best = s;
                bestv = r;
            }
            None => lo = mid + 1,
        }
        if hi - lo < (hi / 50).max(1) {
            break;
        }
    }
    (best, bestv, execs)
}

/// `ixsim abyss --prop P --tier T --seed S [--runs N] --profile NAME --replay-dir D --evidence-part F`
pub fn cmd_batch(args: &[String]) -> i32 {
    let prop = crate::arg(args, "--prop").unwrap_or("C05").to_string();
    let tier = crate::arg(args, "--tier").unwrap_or("quick").to_string();
    let seed: u64 = crate::arg(args, "--seed").and_then(|s| s.parse().ok()).unwrap_or(1);
    let profile = crate::arg(args, "--profile").unwrap_or("release").to_string();
    let threads: usize = crate::arg(args, "--threads").and_then(|s| s.parse().ok()).unwrap_or(16);
    let dflt = if tier == "thorough" { 4000 } else { 160 };
    let runs: u64 = crate::arg(args, "--runs").and_then(|s| s.parse().ok()).unwrap_or(dflt);
    let replay_dir = crate::arg(args, "--replay-dir").unwrap_or("/verif/replays").to_string();
    println!("ixsim abyss: property={} tier={} VERIF_SEED={} runs={} profile={} stack={} depth={:?}", prop, tier, seed, runs, profile, STACK_BYTES, depth_range(&tier));
    let t0 = Instant::now();
    let next = std::sync::atomic::AtomicU64::new(0);
    let results: std::sync::Mutex<Vec<(u64, Spec, ChildOut)>> = std::sync::Mutex::new(Vec::new());
    std::thread::scope(|sc| {
        for _ in 0..threads.min(runs as usize).max(1) {
            sc.spawn(|| loop {
                let i = next.fetch_add(1, std::sync::atomic::Ordering::SeqCst);
                if i >= runs {
                    break;
                }
                let spec = gen_spec(&prop, &tier, seed, i);
                let out = run_child(
                    &["--prop".into(), prop.clone(), "--tier".into(), tier.clone(), "--seed".into(), seed.to_string(), "--index".into(), i.to_string()],
                    300,
                );
                results.lock().unwrap().push((i, spec, out));
            });
        }
    });
    let mut results = results.into_inner().unwrap();
    results.sort_by_key(|r| r.0);
    let mut tuples: BTreeMap<String, u64> = BTreeMap::new();
    let mut distinct = std::collections::BTreeSet::new();
    let mut nprobes = 0u64;
    let mut maxdepth = 0u32;
    let mut depth_sum = 0u64;
    for (_, spec, out) in &results {
        maxdepth = maxdepth.max(spec.depth);
        depth_sum += spec.depth as u64;
        for (n, o) in &out.probes {
            nprobes += 1;
            *tuples.entry(format!("{}/-/{}", n, o)).or_insert(0) += 1;
            distinct.insert((n.clone(), o.clone(), 63 - (spec.depth as u64).leading_zeros()));
        }
    }
    let mut code = 0;
    let mut nviol = 0;
    let first_bad = results.iter().find(|r| r.2.verdict != Verdict::Held);
    if let Some((idx, spec, out)) = first_bad {
        match &out.verdict {
            Verdict::Harness(m) => {
                println!("HARNESS-ERROR: abyss run {} : {}", idx, m);
                code = 2;
            }
            v => {
                nviol = 1;
                println!("violation in abyss run {} (depth {}, {} probes): {:?}", idx, spec.depth, spec.probes.len(), v);
                let scratch = format!("{}/.abyss-scratch-{}-{}.json", replay_dir, prop, std::process::id());
                let _ = std::fs::create_dir_all(&replay_dir);
                let (ms, mv, execs) = minimise(spec, v, &scratch);
                let _ = std::fs::remove_file(&scratch);
                println!("minimised depth {} -> {}, probes {} -> {} in {} child executions", spec.depth, ms.depth, spec.probes.len(), ms.probes.len(), execs);
                let path = format!("{}/{}-{}-abyss-{}-{}.json", replay_dir, prop, seed, profile, idx);
                write_spec_file(&path, &prop, &tier, seed, *idx, &profile, &ms, &mv, true, spec);
                // must reproduce in a fresh process
                let again = run_child(&["--file".into(), path.clone()], 120).verdict;
                if again.class() == mv.class() {
                    println!("replay: {:?}", again);
                    println!("VIOLATION property={} replay={}", prop, path);
                    code = 1;
                } else {
                    println!("HARNESS-ERROR: the minimised abyss spec {} does not reproduce ({:?})", path, again);
                    code = 2;
                }
            }
        }
    }
    let wall = t0.elapsed().as_secs_f64();
    if let Some(p) = crate::arg(args, "--evidence-part") {
        let mut probes: BTreeMap<String, u64> = BTreeMap::new();
        probes.insert("abyss_runs".into(), results.len() as u64);
        probes.insert("abyss_probes_executed".into(), nprobes);
        probes.insert("abyss_levels_built_total".into(), depth_sum);
        let j = serde_json::json!({
            "engine": "abyss", "property_id": prop, "tier": tier, "seed": seed, "profile": profile, "features": crate::features_built(),
            "evaluations": results.len(), "distinct_nontrivial": distinct.len(), "steps_total": nprobes,
            "fault_kinds_fired": {}, "probes": probes, "op_rel_outcome": tuples, "violations": nviol, "wall_s": wall,
            "note": format!("one child process per run, scenario thread stack {} bytes, chain depth drawn from {:?}, deepest chain built {}", STACK_BYTES, depth_range(&tier), maxdepth),
        });
        if let Some(d) = std::path::Path::new(p).parent() {
            let _ = std::fs::create_dir_all(d);
        }
        let _ = std::fs::write(p, serde_json::to_string_pretty(&j).unwrap());
    }
    println!("ixsim abyss: {} runs, {} probes, max depth {}, {} distinct (probe, outcome, log2 depth) tuples, {:.1}s", results.len(), nprobes, maxdepth, distinct.len(), wall);
    code
}

/// `ixsim replay FILE` for an abyss file
pub fn cmd_replay(path: &str, text: &str) -> i32 {
    let v: serde_json::Value = match serde_json::from_str(text) {
        Ok(v) => v,
        Err(e) => {
            eprintln!("cannot parse {}: {}", path, e);
            return 2;
        }
    };
    let prop = v["property"].as_str().unwrap_or("?").to_string();
    let out = run_child(&["--file".into(), path.to_string()], 300);
    match out.verdict {
        Verdict::Held => {
            println!("replay: no violation of {} reproduced from {} ({} probes held)", prop, path, out.probes.len());
            0
        }
        Verdict::Harness(m) => {
            println!("HARNESS-ERROR: {}", m);
            2
        }
        other => {
            println!("replay: {:?}", other);
            let rec = v["violation"]["kind"].as_str().unwrap_or("");
            if other.class() == rec {
                println!("VIOLATION property={} replay={}", prop, path);
            } else {
                println!("VIOLATION property={} replay={} (different kind than recorded: {})", prop, path, rec);
            }
            1
        }
    }
}
