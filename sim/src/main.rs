//! ixsim - deterministic history simulator for indextree (engine `histsim` / `buildmatrix` worker).
//!
//!   ixsim run    --prop C05 --tier quick [--seed N] [--runs N] [--threads N] [--known FILE]
//!                [--replay-dir DIR] [--evidence-part FILE] [--profile NAME] [--features NAME]
//!   ixsim replay FILE
//!   ixsim digest --prop MIX [--seed N] [--runs N] [--threads N] [--full]
//!   ixsim abyss  --prop C05 --tier quick --profile dev ...   (engine `abyss`, see abyss.rs)
//!
//! exit codes: 0 held, 1 violation (prints `VIOLATION property=<id> replay=<path>`), 2 harness error

mod abyss;
mod bump;
mod disk;
mod gen;
mod model;
mod ops;
mod oracle;
#[cfg(feature = "ix-par")]
mod par;
mod payload;
mod prng;
mod reads;
mod rel;
mod run;
#[cfg(feature = "ix-deser")]
mod serde_bin;
mod serde_rt;
mod treemacro;
mod util;
mod world;

#[global_allocator]
static GLOBAL: bump::Bump = bump::Bump;

use ops::Replay;
use run::{BatchOpts, Found};
use std::collections::BTreeMap;
use std::time::Duration;

fn arg<'a>(args: &'a [String], name: &str) -> Option<&'a str> {
    args.iter().position(|a| a == name).and_then(|i| args.get(i + 1)).map(|s| s.as_str())
}
fn flag(args: &[String], name: &str) -> bool {
    args.iter().any(|a| a == name)
}

fn default_runs(prop: &str, tier: &str) -> u64 {
    let quick = match prop {
        "C01" | "C03" => 60_000,
        "C02" => 40_000,
        "C04" => 60_000,
        "C05" => 50_000,
        "C06" => 4_000,
        "C07" => 25_000,
        "C08" => 60_000,
        "C09" => 30_000,
        "C10" => 60_000,
        "C11" => 30_000,
        "C12" => 60_000,
        "C13" => 50_000,
        "C14" => 40_000,
        "C16" => 36_000,
        "C17" => 20_000,
        _ => 4_000,
    };
    if tier == "thorough" {
        match prop {
            "C06" => quick * 30,
            "C07" => quick * 40,
            "C17" => quick * 10,
            _ => quick * 30,
        }
    } else {
        quick
    }
}

fn features_built() -> String {
    let mut v: Vec<&str> = Vec::new();
    if cfg!(feature = "ix-std") {
        v.push("std");
    }
    if cfg!(feature = "ix-macros") {
        v.push("macros");
    }
    if cfg!(feature = "ix-par") {
        v.push("par_iter");
    }
    if cfg!(feature = "ix-deser") {
        v.push("deser");
    }
    if v.is_empty() {
        "no_std+alloc".into()
    } else {
        v.join("+")
    }
}
fn profile_built() -> &'static str {
    if cfg!(debug_assertions) {
        "relassert"
    } else {
        "release"
    }
}

fn main() {
    util::install_panic_hook();
    let args: Vec<String> = std::env::args().collect();
    let code = match util::catch(|| dispatch(&args)) {
        Ok(c) => c,
        Err(p) => {
            // a panic outside the guarded library calls is a defect of the harness, never a verdict
            println!("HARNESS-ERROR: panic in the harness: {}", p);
            2
        }
    };
    std::process::exit(code);
}

fn dispatch(args: &[String]) -> i32 {
    match args.get(1).map(|s| s.as_str()) {
        Some("run") => cmd_run(&args[2..]),
        Some("replay") => cmd_replay(&args[2..]),
        Some("digest") => cmd_digest(&args[2..]),
        Some("dump") => cmd_dump(&args[2..]),
        Some("steplog") => cmd_steplog(&args[2..]),
        Some("seqscan") => cmd_seqscan(&args[2..]),
        Some("batchreplay") => cmd_batchreplay(&args[2..]),
        Some("batchdigest") => cmd_batchdigest(&args[2..]),
        Some("abyss") => abyss::cmd_batch(&args[2..]),
        Some("abyss-one") => abyss::cmd_one(&args[2..]),
        _ => {
            eprintln!("usage: ixsim run|replay|digest ...");
            2
        }
    }
}

fn cmd_digest(args: &[String]) -> i32 {
    let prop = arg(args, "--prop").unwrap_or("MIX").to_string();
    let seed: u64 = arg(args, "--seed").and_then(|s| s.parse().ok()).unwrap_or(1);
    let runs: u64 = arg(args, "--runs").and_then(|s| s.parse().ok()).unwrap_or(1000);
    let threads: usize = arg(args, "--threads").and_then(|s| s.parse().ok()).unwrap_or(16);
    let o = BatchOpts {
        prop: prop.clone(),
        tier: "quick".into(),
        batch_seed: seed,
        runs,
        start: 0,
        threads,
        known: vec![],
        profile: profile_built().into(),
        features: features_built(),
        replay_dir: String::new(),
        max_wall: Duration::from_secs(3600),
    };
    let out = run::run_batch(&o, true);
    if flag(args, "--full") {
        for (i, d) in &out.digests {
            println!("{} {:016x}", i, d);
        }
    }
    println!(
        "DIGEST prop={} seed={} runs={} profile={} features={} overall={:016x} violations={} truncated={}",
        prop,
        seed,
        out.runs_done,
        profile_built(),
        features_built(),
        run::digest_of_list(&out.digests),
        out.violation.is_some() as u8,
        out.truncated_foreign
    );
    if let Some(p) = arg(args, "--evidence-part") {
        write_evidence_part(p, &o, &out, 0);
    }
    0
}

/// Re-generate run `--index` of a batch and write it as an explicit op list (buildmatrix replay file).
fn cmd_dump(args: &[String]) -> i32 {
    let prop = arg(args, "--prop").unwrap_or("C17").to_string();
    let seed: u64 = arg(args, "--seed").and_then(|s| s.parse().ok()).unwrap_or(1);
    let idx: u64 = arg(args, "--index").and_then(|s| s.parse().ok()).unwrap_or(0);
    let Some(path) = arg(args, "--out") else {
        eprintln!("--out required");
        return 2;
    };
    let (rseed, gcfg, out) = run::run_generated(&prop, seed, idx, None);
    let rp = Replay {
        engine: "buildmatrix".into(),
        engine_version: run::ENGINE_VERSION,
        property: prop.clone(),
        batch_seed: seed,
        run_index: idx,
        run_seed: rseed,
        profile: profile_built().into(),
        features: features_built(),
        cfg: gcfg.exec.clone(),
        ops: out.ops.clone(),
        violation: ops::ViolationRec {
            property: prop,
            step: out.ops.len().saturating_sub(1),
            kind: "event_log_differs_between_builds".into(),
            op: out.ops.last().map(|o| o.name()).unwrap_or("-").into(),
            rel: "-".into(),
            detail: String::new(),
        },
        minimised: false,
        original_len: out.ops.len(),
        note: String::new(),
    };
    match std::fs::write(path, serde_json::to_string_pretty(&rp).unwrap()) {
        Ok(()) => 0,
        Err(e) => {
            eprintln!("cannot write {}: {}", path, e);
            2
        }
    }
}

/// Print the cumulative event-log digest after every op of a replay file (one per line).
fn cmd_steplog(args: &[String]) -> i32 {
    let Some(path) = args.first() else {
        eprintln!("usage: ixsim steplog FILE");
        return 2;
    };
    let rp: Replay = match std::fs::read_to_string(path).map_err(|e| e.to_string()).and_then(|t| serde_json::from_str(&t).map_err(|e| e.to_string())) {
        Ok(r) => r,
        Err(e) => {
            eprintln!("cannot load {}: {}", path, e);
            return 2;
        }
    };
    let out = run::exec_list(&rp.property, &rp.cfg, &rp.ops);
    for (i, d) in out.steplog.iter().enumerate() {
        println!("{} {:016x} {}", i, d, rp.ops[i].name());
    }
    if let Some(f) = out.found {
        println!("found {} {} {}", f.at, f.viol.kind, f.viol.detail);
    }
    0
}

fn cmd_replay(args: &[String]) -> i32 {
    let Some(path) = args.first() else {
        eprintln!("usage: ixsim replay FILE");
        return 2;
    };
    let text = match std::fs::read_to_string(path) {
        Ok(t) => t,
        Err(e) => {
            eprintln!("cannot read {}: {}", path, e);
            return 2;
        }
    };
    if text.contains("\"histsim-batch\"") {
        return cmd_batchreplay(args);
    }
    if text.contains("\"engine\": \"abyss\"") {
        return abyss::cmd_replay(path, &text);
    }
    let rp: Replay = match serde_json::from_str(&text) {
        Ok(r) => r,
        Err(e) => {
            eprintln!("cannot parse {}: {}", path, e);
            return 2;
        }
    };
    let out = run::exec_list(&rp.property, &rp.cfg, &rp.ops);
    match out.found {
        Some(f) => {
            println!(
                "replay: step {} op {} rel {} kind {} : {}",
                f.at, f.op, f.rel, f.viol.kind, f.viol.detail
            );
            if f.viol.kind == rp.violation.kind {
                println!("VIOLATION property={} replay={}", rp.property, path);
            } else {
                println!("VIOLATION property={} replay={} (different kind than recorded: {})", rp.property, path, rp.violation.kind);
            }
            1
        }
        None => {
            println!("replay: no violation of {} reproduced from {} (profile {} features {})", rp.property, path, profile_built(), features_built());
            0
        }
    }
}

fn cmd_run(args: &[String]) -> i32 {
    let Some(prop) = arg(args, "--prop") else {
        eprintln!("--prop required");
        return 2;
    };
    let tier = arg(args, "--tier").unwrap_or("quick").to_string();
    let seed: u64 = arg(args, "--seed").and_then(|s| s.parse().ok()).unwrap_or(1);
    let runs: u64 = arg(args, "--runs").and_then(|s| s.parse().ok()).unwrap_or_else(|| default_runs(prop, &tier));
    let runs = runs / arg(args, "--runs-div").and_then(|s| s.parse::<u64>().ok()).unwrap_or(1).max(1);
    let threads: usize = arg(args, "--threads").and_then(|s| s.parse().ok()).unwrap_or(16);
    let known = arg(args, "--known").map(run::load_known).unwrap_or_default();
    let replay_dir = arg(args, "--replay-dir").unwrap_or("/verif/replays").to_string();
    let o = BatchOpts {
        prop: prop.to_string(),
        tier: tier.clone(),
        batch_seed: seed,
        runs,
        start: 0,
        threads,
        known,
        profile: profile_built().into(),
        features: features_built(),
        replay_dir: replay_dir.clone(),
        max_wall: Duration::from_secs(arg(args, "--max-wall").and_then(|s| s.parse().ok()).unwrap_or(3 * 3600)),
    };
    println!(
        "ixsim: property={} tier={} VERIF_SEED={} runs={} threads={} profile={} features={}",
        prop, tier, seed, runs, threads, o.profile, o.features
    );
    let digests_out = arg(args, "--digests-out");
    let out = run::run_batch(&o, digests_out.is_some());
    if let Some(p) = digests_out {
        let mut t = String::new();
        for (i, d) in &out.digests {
            t.push_str(&format!("{} {:016x}\n", i, d));
        }
        let _ = std::fs::write(p, t);
    }
    let mut code = 0;
    let mut nviol = 0;
    for (sig, (text, n)) in &out.known_seen {
        println!("KNOWN-FINDING: property={} {} (signature {}, seen in {} runs)", prop, text, sig, n);
    }
    if let Some((idx, cfg, ops)) = &out.hang {
        // bounded liveness: a call did not return within the watchdog limit
        let f = Found {
            viol: world::viol("C02", "call_did_not_return", format!("op #{} of run {} did not return within 60 s", ops.len(), idx)),
            at: ops.len().saturating_sub(1),
            op: ops.last().map(|o| o.name()).unwrap_or("-").to_string(),
            rel: "-".into(),
        };
        let path = run::write_replay(&replay_dir, &o, *idx, 0, cfg, ops, &f, false, ops.len(), "watchdog: the replay hangs again under the same watchdog");
        if prop == "C02" {
            println!("VIOLATION property=C02 replay={}", path);
            write_evidence_part_opt(args, &o, &out, 1);
            return 1;
        } else {
            println!(
                "note: {} worker(s) lost in a call that did not return (C02's business; first: run {}, replay {}); the other workers went on",
                out.hangs, idx, path
            );
        }
    }
    if let Some((idx, rseed, cfg, ops, f)) = &out.violation {
        nviol = 1;
        println!(
            "violation in run {} (run seed {}): step {} op {} rel {} kind {}: {}",
            idx, rseed, f.at, f.op, f.rel, f.viol.kind, f.viol.detail
        );
        let (mcfg, mops, mf, execs) = run::minimise(prop, cfg, ops, f, Duration::from_secs(10));
        println!("minimised {} -> {} ops in {} re-executions", ops.len(), mops.len(), execs);
        let path = run::write_replay(&replay_dir, &o, *idx, *rseed, &mcfg, &mops, &mf, true, ops.len(), "");
        // the minimised file must reproduce in a fresh process
        let exe = std::env::current_exe().unwrap();
        let res = output_with_timeout(std::process::Command::new(exe).arg("replay").arg(&path), 180);
        match res {
            Ok(r) if r.status.code() == Some(1) => {
                let so = String::from_utf8_lossy(&r.stdout);
                for l in so.lines().filter(|l| l.starts_with("replay:")) {
                    println!("{}", l);
                }
                println!("VIOLATION property={} replay={}", prop, path);
                code = 1;
            }
            Ok(r) => {
                println!(
                    "note: the op list of run {} alone does not reproduce in a fresh process (exit {:?}): the violation depends on state outside the run",
                    idx,
                    r.status.code()
                );
                code = batch_fallback(prop, &o, &replay_dir, &mf);
            }
            Err(e) => {
                println!("HARNESS-ERROR: cannot spawn replay: {}", e);
                code = 2;
            }
        }
    }
    if out.obs_panics > 0 {
        println!(
            "note: {} runs ended by a panic outside the guarded library calls (first: {})",
            out.obs_panics,
            util::trunc(&out.obs_panic_msg, 300)
        );
        if code == 0 {
            // nothing was found, but part of the exploration did not happen: not a clean result
            println!("HARNESS-ERROR: runs ended by panics in observation code and no violation was found");
            code = 2;
        }
    }
    if out.hangs as usize * 2 >= o.threads.max(2) && code == 0 {
        println!("HARNESS-ERROR: half of the workers were lost in calls that did not return and no violation was found: no verdict");
        code = 2;
    }
    if out.runs_done == 0 && out.hang.is_none() {
        println!("HARNESS-ERROR: no run was executed");
        code = 2;
    }
    write_evidence_part_opt(args, &o, &out, nviol);
    println!(
        "ixsim: {} runs, {} steps, {} distinct (state,op,rel,outcome) tuples, {} truncated-foreign, {:.1}s",
        out.runs_done,
        out.stats.steps,
        out.stats.distinct.len(),
        out.truncated_foreign,
        out.wall
    );
    code
}

/// A violation that a run's own op list does not reproduce depends on state that earlier runs left
/// behind in the process (a static or thread-local in the library: itself a defect). The
/// reproducible unit then is a *sequence of runs* executed on one thread in a fresh process:
/// scan the batch sequentially for the first violating run, then look for one earlier run that
/// suffices as its predecessor.
fn batch_fallback(prop: &str, o: &BatchOpts, replay_dir: &str, f: &Found) -> i32 {
    let exe = std::env::current_exe().unwrap();
    let limit = o.runs.min(50_000);
    let scan = std::process::Command::new(&exe)
        .args(["seqscan", "--prop", prop, "--seed", &o.batch_seed.to_string(), "--limit", &limit.to_string()])
        .output();
    let first: Option<u64> = match &scan {
        Ok(r) => String::from_utf8_lossy(&r.stdout)
            .lines()
            .find_map(|l| l.strip_prefix("SEQ-FIRST ").and_then(|x| x.split_whitespace().next().and_then(|n| n.parse().ok()))),
        Err(_) => None,
    };
    let Some(last) = first else {
        println!("HARNESS-ERROR: the violation ({}) does not reproduce in a sequential single-thread scan of the first {} runs either", f.viol.kind, limit);
        return 2;
    };
    let write = |runs: &[u64], path: &str| {
        let j = serde_json::json!({
            "engine": "histsim-batch", "engine_version": run::ENGINE_VERSION, "property": prop,
            "batch_seed": o.batch_seed, "runs": runs, "profile": o.profile, "features": o.features,
            "violation": {"kind": f.viol.kind, "detail": f.viol.detail},
            "note": "generated runs executed one after the other on one thread in a fresh process; the last one violates the property only because of state the earlier ones left behind in the process"
        });
        let _ = std::fs::write(path, serde_json::to_string_pretty(&j).unwrap());
    };
    let reproduces = |path: &str| -> bool {
        matches!(std::process::Command::new(&exe).arg("batchreplay").arg(path).output(), Ok(r) if r.status.code() == Some(1))
    };
    let _ = std::fs::create_dir_all(replay_dir);
    let path = format!("{}/{}-{}-{}-batch.json", replay_dir, prop, o.batch_seed, last);
    let mut chosen: Option<Vec<u64>> = None;
    for j in (last.saturating_sub(400)..last).rev() {
        write(&[j, last], &path);
        if reproduces(&path) {
            chosen = Some(vec![j, last]);
            break;
        }
    }
    let runs = chosen.unwrap_or_else(|| (0..=last).collect());
    write(&runs, &path);
    if reproduces(&path) {
        println!("batch replay: runs {:?}{} reproduce it sequentially", &runs[..runs.len().min(4)], if runs.len() > 4 { ".." } else { "" });
        println!("VIOLATION property={} replay={}", prop, path);
        1
    } else {
        println!("HARNESS-ERROR: batch replay {} does not reproduce", path);
        2
    }
}

fn cmd_seqscan(args: &[String]) -> i32 {
    let prop = arg(args, "--prop").unwrap_or("C01").to_string();
    let seed: u64 = arg(args, "--seed").and_then(|s| s.parse().ok()).unwrap_or(1);
    let limit: u64 = arg(args, "--limit").and_then(|s| s.parse().ok()).unwrap_or(10_000);
    let t0 = std::time::Instant::now();
    for idx in 0..limit {
        if t0.elapsed() > Duration::from_secs(90) {
            break;
        }
        let (_s, _g, out) = run::run_generated(&prop, seed, idx, None);
        if let Some(f) = out.found {
            println!("SEQ-FIRST {} {}", idx, f.viol.kind);
            return 1;
        }
    }
    println!("SEQ-NONE");
    0
}

/// Execute the listed generated runs one after the other on this thread and print the event-log
/// digest of the last one (buildmatrix fallback for differences that depend on process state).
fn cmd_batchdigest(args: &[String]) -> i32 {
    let prop = arg(args, "--prop").unwrap_or("C17").to_string();
    let seed: u64 = arg(args, "--seed").and_then(|s| s.parse().ok()).unwrap_or(1);
    let runs: Vec<u64> = arg(args, "--runs").unwrap_or("").split(',').filter_map(|s| s.parse().ok()).collect();
    let mut last = 0u64;
    let mut found = String::new();
    for idx in &runs {
        let (_s, _g, out) = run::run_generated(&prop, seed, *idx, None);
        last = out.digest;
        found = out.found.map(|f| f.viol.kind.to_string()).unwrap_or_default();
    }
    println!("BATCHDIGEST {:016x} {}", last, found);
    0
}

fn cmd_batchreplay(args: &[String]) -> i32 {
    let Some(path) = args.first() else { return 2 };
    let Ok(text) = std::fs::read_to_string(path) else { return 2 };
    let Ok(v) = serde_json::from_str::<serde_json::Value>(&text) else { return 2 };
    let prop = v["property"].as_str().unwrap_or("").to_string();
    let seed = v["batch_seed"].as_u64().unwrap_or(1);
    let runs: Vec<u64> = v["runs"].as_array().map(|a| a.iter().filter_map(|x| x.as_u64()).collect()).unwrap_or_default();
    let mut last = None;
    for (i, idx) in runs.iter().enumerate() {
        let (_s, _g, out) = run::run_generated(&prop, seed, *idx, None);
        if i + 1 == runs.len() {
            last = out.found;
        }
    }
    match last {
        Some(f) => {
            println!("replay: after runs {:?}: step {} op {} kind {} : {}", &runs[..runs.len().min(4)], f.at, f.op, f.viol.kind, f.viol.detail);
            println!("VIOLATION property={} replay={}", prop, path);
            1
        }
        None => {
            println!("replay: the last of the {} runs does not violate {}", runs.len(), prop);
            0
        }
    }
}

/// `Command::output` with a wall-clock limit (a replay of a defective library may not return).
fn output_with_timeout(cmd: &mut std::process::Command, secs: u64) -> std::io::Result<std::process::Output> {
    use std::process::Stdio;
    let mut child = cmd.stdout(Stdio::piped()).stderr(Stdio::piped()).spawn()?;
    let t0 = std::time::Instant::now();
    loop {
        if child.try_wait()?.is_some() {
            return child.wait_with_output();
        }
        if t0.elapsed() > Duration::from_secs(secs) {
            let _ = child.kill();
            return child.wait_with_output();
        }
        std::thread::sleep(Duration::from_millis(20));
    }
}

fn write_evidence_part_opt(args: &[String], o: &BatchOpts, out: &run::BatchOut, nviol: u32) {
    if let Some(p) = arg(args, "--evidence-part") {
        write_evidence_part(p, o, out, nviol);
    }
}

fn write_evidence_part(path: &str, o: &BatchOpts, out: &run::BatchOut, nviol: u32) {
    let mut ops: BTreeMap<String, u64> = BTreeMap::new();
    for ((op, rel, oc), n) in &out.stats.ops {
        ops.insert(format!("{}/{}/{}", op, rel, oc), *n);
    }
    let faults: BTreeMap<String, u64> = out.stats.faults.iter().map(|(k, v)| (k.to_string(), *v)).collect();
    let probes: BTreeMap<String, u64> = out.stats.probes.iter().map(|(k, v)| (k.to_string(), *v)).collect();
    let known: Vec<String> = out.known_seen.keys().cloned().collect();
    let wall = out.wall.max(1e-6);
    let j = serde_json::json!({
        "property_id": o.prop,
        "tier": o.tier,
        "seed": o.batch_seed,
        "profile": o.profile,
        "features": o.features,
        "evaluations": out.runs_done,
        "distinct_nontrivial": out.stats.distinct.len(),
        "distinct_states": out.stats.states.len(),
        "distinct_schedules": out.stats.schedules.len(),
        "steps_total": out.stats.steps,
        "ops_skipped": out.stats.skipped,
        "runs_per_hour": (out.runs_done as f64 / wall * 3600.0) as u64,
        "runs_truncated_foreign": out.truncated_foreign,
        "runs_ended_by_observation_panic": out.obs_panics,
        "workers_lost_to_watchdog": out.hangs,
        "fault_kinds_fired": faults,
        "probes": probes,
        "op_rel_outcome": ops,
        "known_findings_seen": known,
        "samples": out.samples,
        "violations": nviol,
        "wall_s": out.wall,
    });
    if let Some(dir) = std::path::Path::new(path).parent() {
        let _ = std::fs::create_dir_all(dir);
    }
    let _ = std::fs::write(path, serde_json::to_string_pretty(&j).unwrap());
}
