//! `par_iter` clause of C17 (feature par_iter): par_iter visits exactly the nodes of iter.
//! Natively rayon's stealing order is not controlled by the harness; the observation does not
//! depend on it when the property holds. The Miri leg (threads crate) controls the schedule.

use crate::payload::Payload;
use crate::world::{slot_of, viol, Viol, World};
use rayon::prelude::*;

type KeyT = (bool, Option<usize>, Option<usize>, String);

pub fn check_par<T: Payload>(w: &World<T>, threads: u8, seq: &[KeyT], viols: &mut Vec<Viol>) {
    let n = match threads % 4 {
        0 => 1,
        1 => 2,
        2 => 7,
        _ => 16,
    };
    // one pool per size for the whole process (building a pool per observation costs ms)
    static POOLS: [std::sync::OnceLock<Option<rayon::ThreadPool>>; 4] =
        [std::sync::OnceLock::new(), std::sync::OnceLock::new(), std::sync::OnceLock::new(), std::sync::OnceLock::new()];
    let Some(pool) = POOLS[(threads % 4) as usize].get_or_init(|| rayon::ThreadPoolBuilder::new().num_threads(n).build().ok()) else {
        return;
    };
    let arena = &w.arena;
    let key = |n: &indextree::Node<T>| -> KeyT {
        (
            n.is_removed(),
            n.parent().map(slot_of),
            n.next_sibling().map(slot_of),
            if n.is_removed() { String::new() } else { n.get().canon() },
        )
    };
    let (par, cnt) = pool.install(|| {
        let v: Vec<KeyT> = arena.par_iter().map(key).collect();
        let c = arena.par_iter().count();
        (v, c)
    });
    if cnt != arena.count() {
        viols.push(viol("C17", "par_iter_count_differs", format!("par_iter().count() = {} but count() = {}", cnt, arena.count())));
    }
    if par != seq {
        viols.push(viol("C17", "par_iter_differs_from_iter", format!("{} threads: par_iter visited {} nodes, iter {}", n, par.len(), seq.len())));
    }
}
