//! Step invariants and state refinement: C01 / C02 (model-free, on the real arena), whole-forest
//! comparison with the reference model (C03 / C04 / C07 / C08 / C13 / C16 by op kind), tombstone
//! rule (C12), id ledger (C06), drop ledger (C08).

use crate::ops::{Key, Op};
use crate::payload::{self, Payload};
use crate::world::{links_of, slot_of, viol, Class, Viol, World, LINK_NAMES};
use indextree::{Arena, NodeId};
use std::num::NonZeroUsize;

pub fn live_ids<T>(arena: &Arena<T>) -> Vec<NodeId> {
    (1..=arena.count())
        .filter_map(|i| arena.get_node_id_at(NonZeroUsize::new(i).unwrap()))
        .collect()
}

/// Model-free structural invariants (C01) and acyclicity by bounded walks (C02).
/// Returns violations; never loops (every walk is bounded by the number of live nodes).
pub fn structural_invariants<T>(arena: &Arena<T>) -> Vec<Viol> {
    let mut v = Vec::new();
    let live = live_ids(arena);
    let n = live.len();
    let count = arena.count();
    let mut naming = vec![0usize; count + 1];
    let mut links_valid = true;
    for &x in &live {
        let l = links_of(arena, x);
        for (j, y) in l.iter().enumerate() {
            let Some(y) = *y else { continue };
            let sy = slot_of(y);
            match arena.get(y) {
                None => {
                    v.push(viol(
                        "C01",
                        "dangling_link",
                        format!("{} of node {} points to position {} > count {}", LINK_NAMES[j], slot_of(x), sy, count),
                    ));
                    links_valid = false;
                }
                Some(node) => {
                    if node.is_removed() {
                        let d = format!("{} of live node {} names removed node {}", LINK_NAMES[j], slot_of(x), sy);
                        v.push(viol("C01", "link_to_removed_node", d.clone()));
                        v.push(viol("C12", "live_link_to_removed_node", d));
                        links_valid = false;
                    } else if y.is_removed(arena) {
                        v.push(viol(
                            "C01",
                            "link_to_stale_id",
                            format!("{} of live node {} is an id of an earlier generation of slot {}", LINK_NAMES[j], slot_of(x), sy),
                        ));
                        links_valid = false;
                    }
                }
            }
        }
        if l[3].is_some() != l[4].is_some() {
            v.push(viol(
                "C01",
                "first_last_child_mismatch",
                format!("node {}: first_child {:?} last_child {:?}", slot_of(x), l[3].map(slot_of), l[4].map(slot_of)),
            ));
        }
        if let Some(p) = l[0] {
            if slot_of(p) <= count {
                naming[slot_of(p)] += 1;
            }
        }
    }
    if !links_valid {
        // C01 is violated; the bounded walks of C02 still run (they tolerate links to removed or
        // out-of-range slots), so that a cycle is reported at the step that creates it
        v.extend(acyclicity_walks(arena, &live));
        return v;
    }
    for &x in &live {
        let l = links_of(arena, x);
        if let Some(y) = l[2] {
            let ly = links_of(arena, y);
            if ly[1] != Some(x) {
                v.push(viol(
                    "C01",
                    "asymmetric_sibling_links",
                    format!("next({})={} but previous({})={:?}", slot_of(x), slot_of(y), slot_of(y), ly[1].map(slot_of)),
                ));
            }
            if ly[0] != l[0] {
                v.push(viol(
                    "C01",
                    "siblings_disagree_on_parent",
                    format!("{} and its next sibling {} report parents {:?} / {:?}", slot_of(x), slot_of(y), l[0].map(slot_of), ly[0].map(slot_of)),
                ));
            }
        }
        if let Some(y) = l[1] {
            let ly = links_of(arena, y);
            if ly[2] != Some(x) {
                v.push(viol(
                    "C01",
                    "asymmetric_sibling_links",
                    format!("previous({})={} but next({})={:?}", slot_of(x), slot_of(y), slot_of(y), ly[2].map(slot_of)),
                ));
            }
        }
        // the children of x form a chain first..last made of exactly the nodes naming x as parent
        match (l[3], l[4]) {
            (Some(first), Some(last)) => {
                let mut members = 0usize;
                let mut cur = Some(first);
                let mut ok = true;
                if links_of(arena, first)[1].is_some() {
                    v.push(viol("C01", "child_chain_broken", format!("first child {} of {} has a previous sibling", slot_of(first), slot_of(x))));
                    ok = false;
                }
                let mut lastseen = first;
                while let Some(c) = cur {
                    members += 1;
                    if members > n {
                        v.push(viol("C01", "child_chain_broken", format!("children of {} do not form a finite chain", slot_of(x))));
                        v.push(viol("C02", "sibling_cycle", format!("children of {} do not form a finite chain", slot_of(x))));
                        ok = false;
                        break;
                    }
                    let lc = links_of(arena, c);
                    if lc[0] != Some(x) {
                        v.push(viol(
                            "C01",
                            "child_chain_broken",
                            format!("node {} is in the child chain of {} but names parent {:?}", slot_of(c), slot_of(x), lc[0].map(slot_of)),
                        ));
                        ok = false;
                    }
                    lastseen = c;
                    cur = lc[2];
                }
                if ok && lastseen != last {
                    v.push(viol(
                        "C01",
                        "child_chain_broken",
                        format!("child chain of {} ends at {} but last_child is {}", slot_of(x), slot_of(lastseen), slot_of(last)),
                    ));
                    ok = false;
                }
                if ok && members != naming[slot_of(x)] {
                    v.push(viol(
                        "C01",
                        "child_count_mismatch",
                        format!("{} nodes name {} as parent but its child chain has {}", naming[slot_of(x)], slot_of(x), members),
                    ));
                }
            }
            (None, None) => {
                if naming[slot_of(x)] != 0 {
                    v.push(viol(
                        "C01",
                        "child_count_mismatch",
                        format!("{} nodes name {} as parent but it has no children", naming[slot_of(x)], slot_of(x)),
                    ));
                }
            }
            _ => {}
        }
    }
    v.extend(acyclicity_walks(arena, &live));
    v
}

/// C02: following parent links from any live node reaches a parentless node in fewer steps than
/// there are nodes; following sibling links reaches the end of the chain. The walks follow links
/// through whatever slot they name (a walk that leaves the arena simply ends) and are bounded by
/// the number of live nodes when every link names a live node, by the number of slots otherwise.
pub fn acyclicity_walks<T>(arena: &Arena<T>, live: &[NodeId]) -> Vec<Viol> {
    let mut v = Vec::new();
    let n = live.len();
    let bound = arena.count() + 1;
    let link = |id: NodeId, j: usize| -> Option<NodeId> { arena.get(id).and_then(|_| links_of(arena, id)[j]) };
    for &x in live {
        for (dir, kind, name) in [(0usize, "parent_cycle", "parent"), (2usize, "sibling_cycle", "next-sibling"), (1usize, "sibling_cycle", "previous-sibling")] {
            let mut hops = 0usize;
            let mut all_live = true;
            let mut cur = link(x, dir);
            while let Some(p) = cur {
                hops += 1;
                if arena.get(p).map_or(true, |node| node.is_removed()) {
                    all_live = false;
                }
                if (all_live && hops >= n) || hops >= bound {
                    v.push(viol("C02", kind, format!("{} walk from {} does not end within {} steps", name, slot_of(x), hops)));
                    break;
                }
                cur = link(p, dir);
            }
        }
        if v.len() > 4 {
            break;
        }
    }
    v
}

impl<T: Payload> World<T> {
    pub fn check_invariants(&mut self, viols: &mut Vec<Viol>) {
        let arena = &self.arena;
        match crate::util::catch(|| structural_invariants(arena)) {
            Ok(v) => viols.extend(v),
            Err(p) => viols.push(viol("C01", "panic_while_reading_links", p)),
        }
    }

    fn owner_of(op: &Op, class: Class) -> &'static str {
        if class != Class::Ok {
            return "C05";
        }
        match op {
            Op::Insert { .. } | Op::Detach { .. } | Op::AppendValue { .. } => "C03",
            Op::Remove { .. } | Op::RemoveSubtree { .. } | Op::CycleSlot { .. } => "C04",
            Op::New { .. } | Op::TreeMacro { .. } => "C07",
            Op::SetPayload { .. } => "C08",
            Op::RestartSerde { .. } => "C16",
            _ => "C13",
        }
    }

    fn key_name(&self, id: Option<NodeId>) -> String {
        match id {
            None => "None".into(),
            Some(i) => match self.m.key_of(i) {
                Some(k) => format!("k{}@{}", k, slot_of(i)),
                None => format!("?@{}", slot_of(i)),
            },
        }
    }

    /// Whole-forest comparison of the real arena with the model: liveness of every slot, the five
    /// links of every live node, every payload (frame condition + subtree integrity at once).
    pub fn cmp_forest(&mut self, op: &Op, class: Class, viols: &mut Vec<Viol>) {
        let owner = Self::owner_of(op, class);
        let arena = &self.arena;
        let m = &self.m;
        let mut found: Vec<Viol> = Vec::new();
        let r = crate::util::catch(|| {
            let mut found: Vec<Viol> = Vec::new();
            if arena.count() != m.count {
                found.push(viol(owner, "count_mismatch", format!("count() is {} but {} slots were allocated", arena.count(), m.count)));
                return found;
            }
            for i in 1..=m.count {
                let got = arena.get_node_id_at(NonZeroUsize::new(i).unwrap());
                let occ: Option<Key> = m.slot_key[i - 1];
                let live_key = occ.filter(|k| m.is_live(*k));
                match (live_key, got) {
                    (Some(k), Some(id)) => {
                        let mn = m.n(k);
                        if id != mn.id {
                            found.push(viol(owner, "live_node_changed_id", format!("slot {} holds key {} under a different id than the one returned at creation", i, k)));
                            found.push(viol("C08", "live_node_changed_id", format!("slot {} key {}", i, k)));
                            continue;
                        }
                        let exp = m.links(k).map(|o| o.map(|kk| m.id(kk)));
                        let real = links_of(arena, id);
                        for j in 0..5 {
                            if exp[j] != real[j] {
                                found.push(viol(
                                    owner,
                                    "link_mismatch",
                                    format!(
                                        "after {}: {} of k{}@{} is {} but should be {}",
                                        op.name(),
                                        LINK_NAMES[j],
                                        k,
                                        i,
                                        self.key_name(real[j]),
                                        self.key_name(exp[j])
                                    ),
                                ));
                                break;
                            }
                        }
                        let node = &arena[id];
                        let text = node.get().canon();
                        if text != T::canon_of(mn.val) {
                            if owner != "C08" {
                                // "and nothing else changes": a call that alters a bystander's payload
                                found.push(viol(owner, "payload_mismatch", format!("after {}: payload of k{}@{} changed", op.name(), k, i)));
                            }
                            found.push(viol(
                                "C08",
                                "payload_mismatch",
                                format!("after {}: payload of k{}@{} reads {:?}, last stored {:?}", op.name(), k, i, text, T::canon_of(mn.val)),
                            ));
                        }
                    }
                    (Some(k), None) => {
                        let d = format!("after {}: k{}@{} should be live but the arena reports the slot removed", op.name(), k, i);
                        found.push(viol(owner, "live_node_lost", d.clone()));
                        found.push(viol("C08", "live_node_lost", d));
                    }
                    (None, Some(_)) => {
                        found.push(viol(
                            owner,
                            "removed_node_still_live",
                            format!("after {}: slot {} should be removed but the arena reports a live node", op.name(), i),
                        ));
                    }
                    (None, None) => {
                        if !arena.as_slice()[i - 1].is_removed() {
                            found.push(viol(owner, "removed_flag_mismatch", format!("slot {}: get_node_id_at is None but Node::is_removed is false", i)));
                        }
                    }
                }
            }
            found
        });
        match r {
            Ok(f) => found.extend(f),
            Err(p) => found.push(viol(owner, "panic_while_observing", p)),
        }
        viols.extend(found);
    }

    /// C12: a removed node reports no links at all, until its slot is recycled.
    pub fn check_tombs(&mut self, viols: &mut Vec<Viol>) {
        for (k, n) in self.m.nodes.iter().filter(|(_, n)| !n.live) {
            let Some(node) = self.arena.get(n.id) else {
                viols.push(viol("C12", "tombstone_out_of_range", format!("k{}", k)));
                continue;
            };
            if !node.is_removed() {
                continue; // liveness mismatch is reported by cmp_forest
            }
            let l = links_of(&self.arena, n.id);
            for j in 0..5 {
                if l[j].is_some() {
                    viols.push(viol(
                        "C12",
                        "removed_node_reports_link",
                        format!("removed node k{}@{} still reports {} = {}", k, n.slot, LINK_NAMES[j], slot_of(l[j].unwrap())),
                    ));
                    break;
                }
            }
        }
    }

    /// C06: is_removed(id) is false while live, true ever after.
    pub fn check_c06(&mut self, viols: &mut Vec<Viol>) {
        let arena = &self.arena;
        let m = &self.m;
        let deep = self.deep_c06;
        let r = crate::util::catch(|| {
            let mut out = Vec::new();
            for s in 1..=m.count.min(arena.count()) {
                let Some(k) = m.slot_key[s - 1] else { continue };
                let n = m.n(k);
                let got = n.id.is_removed(arena);
                if got == n.live {
                    out.push(viol(
                        "C06",
                        if n.live { "is_removed_true_while_live" } else { "is_removed_false_after_removal" },
                        format!("k{}@{}: NodeId::is_removed is {} but the node is {}", k, s, got, if n.live { "live" } else { "removed" }),
                    ));
                }
                let hist = &m.issued[s - 1];
                if hist.len() > 1 {
                    let older = &hist[..hist.len() - 1];
                    let check = |id: NodeId, idx: usize, out: &mut Vec<Viol>| {
                        if !id.is_removed(arena) {
                            out.push(viol(
                                "C06",
                                "is_removed_flipped_after_reuse",
                                format!("id #{} of slot {} (of {} issued) reports not removed", idx + 1, s, hist.len()),
                            ));
                        }
                    };
                    if older.len() <= 64 || deep && older.len() <= 256 {
                        for (i, id) in older.iter().enumerate() {
                            check(*id, i, &mut out);
                        }
                    } else {
                        let l = older.len();
                        for i in 0..16 {
                            check(older[i], i, &mut out);
                        }
                        for i in l - 32..l {
                            check(older[i], i, &mut out);
                        }
                        if deep {
                            let stride = (l / 16).max(1);
                            let mut i = stride / 2;
                            while i < l {
                                check(older[i], i, &mut out);
                                i += stride;
                            }
                        }
                    }
                }
                if out.len() > 4 {
                    break;
                }
            }
            out
        });
        match r {
            Ok(v) => viols.extend(v),
            Err(p) => viols.push(viol("C06", "is_removed_panicked", p)),
        }
    }

    /// C08: no payload of a live node has been dropped; nothing was dropped twice.
    pub fn check_ledger_live(&mut self, viols: &mut Vec<Viol>) {
        if T::NAME != "tracked" {
            return;
        }
        for (k, n) in self.m.nodes.iter().filter(|(_, n)| n.live) {
            if let Some(s) = n.serial {
                if payload::ledger_is_dropped(s) {
                    viols.push(viol("C08", "payload_dropped_while_live", format!("payload serial {} of live k{}@{} was dropped", s, k, n.slot)));
                }
            }
        }
        let d = payload::ledger_doubles();
        if !d.is_empty() {
            viols.push(viol("C08", "payload_dropped_twice", format!("serials {:?}", d)));
        }
    }
}
