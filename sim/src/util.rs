//! Panic capture (a panic is this library's only "crash"; the arena that survives the unwind is
//! the durable state) and small helpers.

use std::cell::RefCell;
use std::panic::{catch_unwind, AssertUnwindSafe};

thread_local! {
    static LAST_PANIC: RefCell<String> = const { RefCell::new(String::new()) };
}

/// Install a silent panic hook that records the message in a thread-local.
pub fn install_panic_hook() {
    std::panic::set_hook(Box::new(|info| {
        let msg = if let Some(s) = info.payload().downcast_ref::<&str>() {
            s.to_string()
        } else if let Some(s) = info.payload().downcast_ref::<String>() {
            s.clone()
        } else {
            "<non-string panic>".to_string()
        };
        let loc = info
            .location()
            .map(|l| format!("{}:{}", l.file(), l.line()))
            .unwrap_or_default();
        let _ = LAST_PANIC.try_with(|p| {
            if let Ok(mut p) = p.try_borrow_mut() {
                *p = format!("{} @ {}", msg, loc);
            }
        });
    }));
}

pub fn last_panic() -> String {
    LAST_PANIC.with(|p| p.borrow().clone())
}

/// Run `f`; a panic becomes `Err(message)`.
pub fn catch<R>(f: impl FnOnce() -> R) -> Result<R, String> {
    match catch_unwind(AssertUnwindSafe(f)) {
        Ok(r) => Ok(r),
        Err(_) => Err(last_panic()),
    }
}

pub fn trunc(s: &str, n: usize) -> String {
    if s.len() <= n {
        s.to_string()
    } else {
        let mut end = n;
        while !s.is_char_boundary(end) {
            end -= 1;
        }
        format!("{}...", &s[..end])
    }
}
