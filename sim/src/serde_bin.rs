//! A small non-self-describing binary serde format (a stub of bincode's kind) written in the
//! harness: fields are written in declaration order without names, so attributes that a
//! self-describing format forgives (`skip_serializing_if`, `default`, renames) break it.

use serde::de::{self, DeserializeOwned, DeserializeSeed, EnumAccess, IntoDeserializer, MapAccess, SeqAccess, VariantAccess, Visitor};
use serde::ser::{self, Serialize};
use std::fmt;
use std::io::{Read, Write};

#[derive(Debug)]
pub struct Error(pub String);
impl fmt::Display for Error {
    fn fmt(&self, f: &mut fmt::Formatter<'_>) -> fmt::Result {
        f.write_str(&self.0)
    }
}
impl std::error::Error for Error {}
impl ser::Error for Error {
    fn custom<T: fmt::Display>(msg: T) -> Self {
        Error(msg.to_string())
    }
}
impl de::Error for Error {
    fn custom<T: fmt::Display>(msg: T) -> Self {
        Error(msg.to_string())
    }
}
impl From<std::io::Error> for Error {
    fn from(e: std::io::Error) -> Self {
        Error(format!("io: {}", e))
    }
}

pub fn to_writer<W: Write, T: Serialize>(w: W, v: &T) -> Result<(), Error> {
    let mut s = Ser { w };
    v.serialize(&mut s)
}
pub fn from_reader<R: Read, T: DeserializeOwned>(r: R) -> Result<T, Error> {
    let mut d = De { r };
    let v = T::deserialize(&mut d)?;
    // trailing bytes are an error: the encoding must be consumed exactly
    let mut b = [0u8; 1];
    loop {
        match d.r.read(&mut b) {
            Ok(0) => break,
            Ok(_) => return Err(Error("trailing bytes".into())),
            Err(e) if e.kind() == std::io::ErrorKind::Interrupted => continue,
            Err(e) => return Err(e.into()),
        }
    }
    Ok(v)
}

pub struct Ser<W: Write> {
    w: W,
}
impl<W: Write> Ser<W> {
    fn put(&mut self, b: &[u8]) -> Result<(), Error> {
        self.w.write_all(b)?;
        Ok(())
    }
}

macro_rules! ser_num {
    ($name:ident, $t:ty) => {
        fn $name(self, v: $t) -> Result<(), Error> {
            self.put(&v.to_le_bytes())
        }
    };
}

impl<'a, W: Write> ser::Serializer for &'a mut Ser<W> {
    type Ok = ();
    type Error = Error;
    type SerializeSeq = Self;
    type SerializeTuple = Self;
    type SerializeTupleStruct = Self;
    type SerializeTupleVariant = Self;
    type SerializeMap = Self;
    type SerializeStruct = Self;
    type SerializeStructVariant = Self;

    fn serialize_bool(self, v: bool) -> Result<(), Error> {
        self.put(&[v as u8])
    }
    ser_num!(serialize_i8, i8);
    ser_num!(serialize_i16, i16);
    ser_num!(serialize_i32, i32);
    ser_num!(serialize_i64, i64);
    ser_num!(serialize_u8, u8);
    ser_num!(serialize_u16, u16);
    ser_num!(serialize_u32, u32);
    ser_num!(serialize_u64, u64);
    ser_num!(serialize_f32, f32);
    ser_num!(serialize_f64, f64);
    fn serialize_char(self, v: char) -> Result<(), Error> {
        self.put(&(v as u32).to_le_bytes())
    }
    fn serialize_str(self, v: &str) -> Result<(), Error> {
        self.put(&(v.len() as u64).to_le_bytes())?;
        self.put(v.as_bytes())
    }
    fn serialize_bytes(self, v: &[u8]) -> Result<(), Error> {
        self.put(&(v.len() as u64).to_le_bytes())?;
        self.put(v)
    }
    fn serialize_none(self) -> Result<(), Error> {
        self.put(&[0])
    }
    fn serialize_some<T: ?Sized + Serialize>(self, value: &T) -> Result<(), Error> {
        self.put(&[1])?;
        value.serialize(self)
    }
    fn serialize_unit(self) -> Result<(), Error> {
        Ok(())
    }
    fn serialize_unit_struct(self, _: &'static str) -> Result<(), Error> {
        Ok(())
    }
    fn serialize_unit_variant(self, _: &'static str, idx: u32, _: &'static str) -> Result<(), Error> {
        self.put(&idx.to_le_bytes())
    }
    fn serialize_newtype_struct<T: ?Sized + Serialize>(self, _: &'static str, value: &T) -> Result<(), Error> {
        value.serialize(self)
    }
    fn serialize_newtype_variant<T: ?Sized + Serialize>(self, _: &'static str, idx: u32, _: &'static str, value: &T) -> Result<(), Error> {
        self.put(&idx.to_le_bytes())?;
        value.serialize(self)
    }
    fn serialize_seq(self, len: Option<usize>) -> Result<Self, Error> {
        let len = len.ok_or_else(|| Error("sequence length required".into()))?;
        self.put(&(len as u64).to_le_bytes())?;
        Ok(self)
    }
    fn serialize_tuple(self, _: usize) -> Result<Self, Error> {
        Ok(self)
    }
    fn serialize_tuple_struct(self, _: &'static str, _: usize) -> Result<Self, Error> {
        Ok(self)
    }
    fn serialize_tuple_variant(self, _: &'static str, idx: u32, _: &'static str, _: usize) -> Result<Self, Error> {
        self.put(&idx.to_le_bytes())?;
        Ok(self)
    }
    fn serialize_map(self, len: Option<usize>) -> Result<Self, Error> {
        let len = len.ok_or_else(|| Error("map length required".into()))?;
        self.put(&(len as u64).to_le_bytes())?;
        Ok(self)
    }
    fn serialize_struct(self, _: &'static str, _: usize) -> Result<Self, Error> {
        Ok(self)
    }
    fn serialize_struct_variant(self, _: &'static str, idx: u32, _: &'static str, _: usize) -> Result<Self, Error> {
        self.put(&idx.to_le_bytes())?;
        Ok(self)
    }
    fn is_human_readable(&self) -> bool {
        false
    }
}

macro_rules! ser_compound {
    ($tr:ident, $f:ident) => {
        impl<'a, W: Write> ser::$tr for &'a mut Ser<W> {
            type Ok = ();
            type Error = Error;
            fn $f<T: ?Sized + Serialize>(&mut self, value: &T) -> Result<(), Error> {
                value.serialize(&mut **self)
            }
            fn end(self) -> Result<(), Error> {
                Ok(())
            }
        }
    };
}
ser_compound!(SerializeSeq, serialize_element);
ser_compound!(SerializeTuple, serialize_element);
ser_compound!(SerializeTupleStruct, serialize_field);
ser_compound!(SerializeTupleVariant, serialize_field);

impl<'a, W: Write> ser::SerializeMap for &'a mut Ser<W> {
    type Ok = ();
    type Error = Error;
    fn serialize_key<T: ?Sized + Serialize>(&mut self, key: &T) -> Result<(), Error> {
        key.serialize(&mut **self)
    }
    fn serialize_value<T: ?Sized + Serialize>(&mut self, value: &T) -> Result<(), Error> {
        value.serialize(&mut **self)
    }
    fn end(self) -> Result<(), Error> {
        Ok(())
    }
}
impl<'a, W: Write> ser::SerializeStruct for &'a mut Ser<W> {
    type Ok = ();
    type Error = Error;
    fn serialize_field<T: ?Sized + Serialize>(&mut self, _: &'static str, value: &T) -> Result<(), Error> {
        value.serialize(&mut **self)
    }
    fn end(self) -> Result<(), Error> {
        Ok(())
    }
}
impl<'a, W: Write> ser::SerializeStructVariant for &'a mut Ser<W> {
    type Ok = ();
    type Error = Error;
    fn serialize_field<T: ?Sized + Serialize>(&mut self, _: &'static str, value: &T) -> Result<(), Error> {
        value.serialize(&mut **self)
    }
    fn end(self) -> Result<(), Error> {
        Ok(())
    }
}

pub struct De<R: Read> {
    r: R,
}
impl<R: Read> De<R> {
    fn get<const N: usize>(&mut self) -> Result<[u8; N], Error> {
        let mut b = [0u8; N];
        self.r.read_exact(&mut b)?;
        Ok(b)
    }
    fn len(&mut self) -> Result<usize, Error> {
        let l = u64::from_le_bytes(self.get::<8>()?);
        if l > (1 << 32) {
            return Err(Error(format!("implausible length {}", l)));
        }
        Ok(l as usize)
    }
    fn bytes(&mut self) -> Result<Vec<u8>, Error> {
        let l = self.len()?;
        let mut v = Vec::new();
        // do not trust the length for a single allocation
        let mut left = l;
        let mut chunk = [0u8; 256];
        while left > 0 {
            let n = left.min(256);
            self.r.read_exact(&mut chunk[..n])?;
            v.extend_from_slice(&chunk[..n]);
            left -= n;
        }
        Ok(v)
    }
}

macro_rules! de_num {
    ($name:ident, $visit:ident, $t:ty, $n:expr) => {
        fn $name<V: Visitor<'de>>(self, visitor: V) -> Result<V::Value, Error> {
            visitor.$visit(<$t>::from_le_bytes(self.get::<$n>()?))
        }
    };
}

impl<'de, 'a, R: Read> de::Deserializer<'de> for &'a mut De<R> {
    type Error = Error;
    fn deserialize_any<V: Visitor<'de>>(self, _: V) -> Result<V::Value, Error> {
        Err(Error("format is not self-describing".into()))
    }
    fn deserialize_bool<V: Visitor<'de>>(self, visitor: V) -> Result<V::Value, Error> {
        match self.get::<1>()?[0] {
            0 => visitor.visit_bool(false),
            1 => visitor.visit_bool(true),
            b => Err(Error(format!("bad bool {}", b))),
        }
    }
    de_num!(deserialize_i8, visit_i8, i8, 1);
    de_num!(deserialize_i16, visit_i16, i16, 2);
    de_num!(deserialize_i32, visit_i32, i32, 4);
    de_num!(deserialize_i64, visit_i64, i64, 8);
    de_num!(deserialize_u8, visit_u8, u8, 1);
    de_num!(deserialize_u16, visit_u16, u16, 2);
    de_num!(deserialize_u32, visit_u32, u32, 4);
    de_num!(deserialize_u64, visit_u64, u64, 8);
    de_num!(deserialize_f32, visit_f32, f32, 4);
    de_num!(deserialize_f64, visit_f64, f64, 8);
    fn deserialize_char<V: Visitor<'de>>(self, visitor: V) -> Result<V::Value, Error> {
        let c = u32::from_le_bytes(self.get::<4>()?);
        visitor.visit_char(char::from_u32(c).ok_or_else(|| Error("bad char".into()))?)
    }
    fn deserialize_str<V: Visitor<'de>>(self, visitor: V) -> Result<V::Value, Error> {
        self.deserialize_string(visitor)
    }
    fn deserialize_string<V: Visitor<'de>>(self, visitor: V) -> Result<V::Value, Error> {
        let b = self.bytes()?;
        visitor.visit_string(String::from_utf8(b).map_err(|_| Error("bad utf8".into()))?)
    }
    fn deserialize_bytes<V: Visitor<'de>>(self, visitor: V) -> Result<V::Value, Error> {
        self.deserialize_byte_buf(visitor)
    }
    fn deserialize_byte_buf<V: Visitor<'de>>(self, visitor: V) -> Result<V::Value, Error> {
        visitor.visit_byte_buf(self.bytes()?)
    }
    fn deserialize_option<V: Visitor<'de>>(self, visitor: V) -> Result<V::Value, Error> {
        match self.get::<1>()?[0] {
            0 => visitor.visit_none(),
            1 => visitor.visit_some(self),
            b => Err(Error(format!("bad option tag {}", b))),
        }
    }
    fn deserialize_unit<V: Visitor<'de>>(self, visitor: V) -> Result<V::Value, Error> {
        visitor.visit_unit()
    }
    fn deserialize_unit_struct<V: Visitor<'de>>(self, _: &'static str, visitor: V) -> Result<V::Value, Error> {
        visitor.visit_unit()
    }
    fn deserialize_newtype_struct<V: Visitor<'de>>(self, _: &'static str, visitor: V) -> Result<V::Value, Error> {
        visitor.visit_newtype_struct(self)
    }
    fn deserialize_seq<V: Visitor<'de>>(self, visitor: V) -> Result<V::Value, Error> {
        let len = self.len()?;
        visitor.visit_seq(Counted { de: self, left: len })
    }
    fn deserialize_tuple<V: Visitor<'de>>(self, len: usize, visitor: V) -> Result<V::Value, Error> {
        visitor.visit_seq(Counted { de: self, left: len })
    }
    fn deserialize_tuple_struct<V: Visitor<'de>>(self, _: &'static str, len: usize, visitor: V) -> Result<V::Value, Error> {
        visitor.visit_seq(Counted { de: self, left: len })
    }
    fn deserialize_map<V: Visitor<'de>>(self, visitor: V) -> Result<V::Value, Error> {
        let len = self.len()?;
        visitor.visit_map(Counted { de: self, left: len })
    }
    fn deserialize_struct<V: Visitor<'de>>(self, _: &'static str, fields: &'static [&'static str], visitor: V) -> Result<V::Value, Error> {
        visitor.visit_seq(Counted { de: self, left: fields.len() })
    }
    fn deserialize_enum<V: Visitor<'de>>(self, _: &'static str, _: &'static [&'static str], visitor: V) -> Result<V::Value, Error> {
        visitor.visit_enum(Enum { de: self })
    }
    fn deserialize_identifier<V: Visitor<'de>>(self, _: V) -> Result<V::Value, Error> {
        Err(Error("identifiers are not encoded".into()))
    }
    fn deserialize_ignored_any<V: Visitor<'de>>(self, _: V) -> Result<V::Value, Error> {
        Err(Error("cannot skip in a non-self-describing format".into()))
    }
    fn is_human_readable(&self) -> bool {
        false
    }
}

struct Counted<'a, R: Read> {
    de: &'a mut De<R>,
    left: usize,
}
impl<'de, 'a, R: Read> SeqAccess<'de> for Counted<'a, R> {
    type Error = Error;
    fn next_element_seed<S: DeserializeSeed<'de>>(&mut self, seed: S) -> Result<Option<S::Value>, Error> {
        if self.left == 0 {
            return Ok(None);
        }
        self.left -= 1;
        seed.deserialize(&mut *self.de).map(Some)
    }
    fn size_hint(&self) -> Option<usize> {
        Some(self.left.min(4096))
    }
}
impl<'de, 'a, R: Read> MapAccess<'de> for Counted<'a, R> {
    type Error = Error;
    fn next_key_seed<K: DeserializeSeed<'de>>(&mut self, seed: K) -> Result<Option<K::Value>, Error> {
        if self.left == 0 {
            return Ok(None);
        }
        self.left -= 1;
        seed.deserialize(&mut *self.de).map(Some)
    }
    fn next_value_seed<V: DeserializeSeed<'de>>(&mut self, seed: V) -> Result<V::Value, Error> {
        seed.deserialize(&mut *self.de)
    }
}

struct Enum<'a, R: Read> {
    de: &'a mut De<R>,
}
impl<'de, 'a, R: Read> EnumAccess<'de> for Enum<'a, R> {
    type Error = Error;
    type Variant = Self;
    fn variant_seed<V: DeserializeSeed<'de>>(self, seed: V) -> Result<(V::Value, Self), Error> {
        let idx = u32::from_le_bytes(self.de.get::<4>()?);
        let v = seed.deserialize(IntoDeserializer::<Error>::into_deserializer(idx))?;
        Ok((v, self))
    }
}
impl<'de, 'a, R: Read> VariantAccess<'de> for Enum<'a, R> {
    type Error = Error;
    fn unit_variant(self) -> Result<(), Error> {
        Ok(())
    }
    fn newtype_variant_seed<T: DeserializeSeed<'de>>(self, seed: T) -> Result<T::Value, Error> {
        seed.deserialize(self.de)
    }
    fn tuple_variant<V: Visitor<'de>>(self, len: usize, visitor: V) -> Result<V::Value, Error> {
        visitor.visit_seq(Counted { de: self.de, left: len })
    }
    fn struct_variant<V: Visitor<'de>>(self, fields: &'static [&'static str], visitor: V) -> Result<V::Value, Error> {
        visitor.visit_seq(Counted { de: self.de, left: fields.len() })
    }
}
