//! Argument-relation classes for two-node operations `a.op(b)` (a = target, b = moved node).
//! Every class is a reach probe: evidence lists how often (op kind x class x outcome) fired.

use crate::model::Model;
use crate::ops::Key;

#[derive(Clone, Copy, Debug, PartialEq, Eq, PartialOrd, Ord, Hash)]
pub enum Rel {
    Same,
    TombA,
    TombB,
    TombBoth,
    /// b is a's parent
    BParent,
    /// b is a proper ancestor of a at distance >= 2
    BAncestor,
    BFirstChild,
    BLastChild,
    BMidChild,
    BOnlyChild,
    /// b is a descendant of a at depth >= 2
    BDesc,
    /// b is a's next sibling (also in a top-level chain)
    BNext,
    BPrev,
    BFarSib,
    /// same tree, none of the above
    SameTree,
    OtherTree,
    /// single-node ops
    NA,
}

pub const ALL_RELS: [Rel; 16] = [
    Rel::Same,
    Rel::TombA,
    Rel::TombB,
    Rel::TombBoth,
    Rel::BParent,
    Rel::BAncestor,
    Rel::BFirstChild,
    Rel::BLastChild,
    Rel::BMidChild,
    Rel::BOnlyChild,
    Rel::BDesc,
    Rel::BNext,
    Rel::BPrev,
    Rel::BFarSib,
    Rel::SameTree,
    Rel::OtherTree,
];

impl Rel {
    pub fn name(self) -> &'static str {
        match self {
            Rel::Same => "same",
            Rel::TombA => "tomb_a",
            Rel::TombB => "tomb_b",
            Rel::TombBoth => "tomb_both",
            Rel::BParent => "b_parent_of_a",
            Rel::BAncestor => "b_ancestor_of_a",
            Rel::BFirstChild => "b_first_child_of_a",
            Rel::BLastChild => "b_last_child_of_a",
            Rel::BMidChild => "b_mid_child_of_a",
            Rel::BOnlyChild => "b_only_child_of_a",
            Rel::BDesc => "b_descendant_of_a",
            Rel::BNext => "b_next_sibling_of_a",
            Rel::BPrev => "b_prev_sibling_of_a",
            Rel::BFarSib => "b_far_sibling_of_a",
            Rel::SameTree => "same_tree",
            Rel::OtherTree => "other_tree",
            Rel::NA => "-",
        }
    }
}

pub fn classify(m: &Model, a: Key, b: Key) -> Rel {
    if a == b {
        return Rel::Same;
    }
    let (ta, tb) = (m.is_tomb(a), m.is_tomb(b));
    match (ta, tb) {
        (true, true) => return Rel::TombBoth,
        (true, false) => return Rel::TombA,
        (false, true) => return Rel::TombB,
        _ => {}
    }
    if m.parent(a) == Some(b) {
        return Rel::BParent;
    }
    if m.is_proper_ancestor(b, a) {
        return Rel::BAncestor;
    }
    if m.parent(b) == Some(a) {
        let kids = &m.n(a).kids;
        if kids.len() == 1 {
            return Rel::BOnlyChild;
        }
        if kids[0] == b {
            return Rel::BFirstChild;
        }
        if *kids.last().unwrap() == b {
            return Rel::BLastChild;
        }
        return Rel::BMidChild;
    }
    if m.is_proper_ancestor(a, b) {
        return Rel::BDesc;
    }
    if m.n(a).loc == m.n(b).loc {
        if m.next(a) == Some(b) {
            return Rel::BNext;
        }
        if m.prev(a) == Some(b) {
            return Rel::BPrev;
        }
        return Rel::BFarSib;
    }
    if m.root_of(a) == m.root_of(b) {
        return Rel::SameTree;
    }
    Rel::OtherTree
}
