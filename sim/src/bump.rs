//! A global allocator that is the system allocator except inside a short, explicitly opened
//! window on the current thread, where requests of two announced sizes are served back to back
//! from a private region. Used by one probe only (C11): it makes the storage of a second arena
//! start exactly where the storage of the first one ends, so that a *foreign* node reference at
//! the one-past-the-end address of an arena exists - a layout that slab / bump allocators produce
//! in real programs and glibc malloc never does.

use std::alloc::{GlobalAlloc, Layout, System};
use std::cell::Cell;

pub struct Bump;

const REGION: usize = 1 << 20;

thread_local! {
    static BASE: Cell<usize> = const { Cell::new(0) };
    static OFF: Cell<usize> = const { Cell::new(0) };
    static OPEN: Cell<bool> = const { Cell::new(false) };
    static ALIGN: Cell<usize> = const { Cell::new(0) };
    static SIZE_A: Cell<usize> = const { Cell::new(0) };
    static SIZE_B: Cell<usize> = const { Cell::new(0) };
}

fn in_region(p: *mut u8) -> bool {
    let b = BASE.with(|b| b.get());
    b != 0 && (p as usize) >= b && (p as usize) < b + REGION
}

unsafe impl GlobalAlloc for Bump {
    unsafe fn alloc(&self, l: Layout) -> *mut u8 {
        if OPEN.with(|o| o.get())
            && l.align() == ALIGN.with(|a| a.get())
            && (l.size() == SIZE_A.with(|s| s.get()) || l.size() == SIZE_B.with(|s| s.get()))
            && l.size() > 0
        {
            let base = BASE.with(|b| b.get());
            let off = OFF.with(|o| o.get());
            let start = (off + l.align() - 1) & !(l.align() - 1);
            if base != 0 && start + l.size() <= REGION {
                OFF.with(|o| o.set(start + l.size()));
                return (base + start) as *mut u8;
            }
        }
        System.alloc(l)
    }
    unsafe fn dealloc(&self, p: *mut u8, l: Layout) {
        if in_region(p) {
            return;
        }
        System.dealloc(p, l)
    }
    unsafe fn realloc(&self, p: *mut u8, l: Layout, new_size: usize) -> *mut u8 {
        if in_region(p) {
            let nl = Layout::from_size_align_unchecked(new_size, l.align());
            let q = self.alloc(nl);
            if !q.is_null() {
                std::ptr::copy_nonoverlapping(p, q, l.size().min(new_size));
            }
            return q;
        }
        System.realloc(p, l, new_size)
    }
}

/// Open the window: the next allocations of `size_a` or `size_b` bytes with alignment `align`
/// on this thread are placed back to back. Nothing allocated in the window may outlive the next
/// call of `open` on this thread (the region is reused from its start).
pub fn open(align: usize, size_a: usize, size_b: usize) {
    BASE.with(|b| {
        if b.get() == 0 {
            // one region per thread, obtained once from the system allocator, never returned
            let p = unsafe { System.alloc(Layout::from_size_align(REGION, 4096).unwrap()) };
            b.set(p as usize);
        }
    });
    OFF.with(|o| o.set(0));
    ALIGN.with(|a| a.set(align));
    SIZE_A.with(|s| s.set(size_a));
    SIZE_B.with(|s| s.set(size_b));
    OPEN.with(|o| o.set(true));
}
pub fn close() {
    OPEN.with(|o| o.set(false));
}
