//! Run loop (generated or replayed), batches over worker threads, minimiser, replay files,
//! known-findings file, evidence.

use crate::gen::{Gen, GenCfg};
use crate::ops::{ExecCfg, Op, Replay, ViolationRec};
use crate::payload::{self, Big, Opt, Payload, Tracked, Unit, Wide};
use crate::prng::{run_seed, Fnv, Rng};
use crate::world::{Stats, Viol, World};
use std::collections::BTreeMap;
use std::sync::atomic::{AtomicBool, AtomicU64, Ordering};
use std::sync::{Arc, Mutex};
use std::time::{Duration, Instant};

pub const ENGINE_VERSION: u32 = 1;

#[derive(Clone, Debug)]
pub struct Found {
    pub viol: Viol,
    /// index into the op list of the op at which the violation was observed
    pub at: usize,
    pub op: String,
    pub rel: String,
}
impl Found {
    pub fn signature(&self) -> String {
        format!("{}:{}:{}", self.viol.kind, self.op, self.rel)
    }
}

pub struct RunOut {
    pub found: Option<Found>,
    pub truncated_foreign: bool,
    pub ops: Vec<Op>,
    pub stats: Stats,
    pub digest: u64,
    /// cumulative event-log digest after each op (skipped ops repeat the previous value)
    pub steplog: Vec<u64>,
    pub obs_panic: Option<String>,
}

/// The active property decides which violations are this check's to report.
fn owns(prop: &str, v: &Viol) -> bool {
    v.prop == prop
}

/// Execute ops produced by `next` on a fresh world. The same loop serves generated runs and
/// replays, so a replay is a pure function of the op list and the code.
pub fn exec<T: Payload>(prop: &str, cfg: &ExecCfg, mut next: impl FnMut(&World<T>) -> Option<Op>, progress: Option<&Progress>) -> RunOut {
    payload::ledger_reset();
    payload::set_frag(0);
    let (mut world, v0) = World::<T>::new(cfg.clone());
    world.deep_c06 = prop == "C06";
    let mut ops: Vec<Op> = Vec::new();
    let mut steplog: Vec<u64> = Vec::new();
    let mut found: Option<Found> = None;
    let mut truncated = false;
    let mut blind_used = false;
    let mut obs_panic: Option<String> = None;
    if let Some(v) = v0.into_iter().find(|v| owns(prop, v)) {
        found = Some(Found {
            viol: v,
            at: 0,
            op: "with_capacity".into(),
            rel: "-".into(),
        });
    }
    while found.is_none() {
        let Some(op) = next(&world) else { break };
        if let Some(p) = progress {
            p.publish(&op, ops.len());
        }
        let out = match crate::util::catch(|| world.step(&op)) {
            Ok(o) => o,
            Err(p) => {
                // a panic outside the guarded library calls (harness observation code on a damaged
                // arena, or a harness defect): the run ends, it is counted, never a verdict
                ops.push(op);
                obs_panic = Some(p);
                break;
            }
        };
        ops.push(op);
        steplog.push(world.log.0);
        if out.skipped {
            continue;
        }
        if let Some(v) = out.viols.iter().find(|v| owns(prop, v)) {
            found = Some(Found {
                viol: v.clone(),
                at: ops.len() - 1,
                op: ops.last().unwrap().name().to_string(),
                rel: out.rel.name().to_string(),
            });
            break;
        }
        if world.diverged && world.stop_clean {
            break;
        }
        if world.diverged {
            let cyclic = out.viols.iter().any(|v| v.prop == "C02");
            if (prop == "C01" || prop == "C02" || prop == "C10") && !world.blind && !blind_used && !cyclic {
                // C01 / C02 are model-free: go on blind (ids live in the real arena, only the
                // structural invariants are evaluated), so that damage that needs further steps
                // to turn into a malformed or cyclic forest is still found
                world.blind = true;
                world.diverged = false;
                blind_used = true;
                continue;
            }
            // another property's business made the real state uninterpretable for the model:
            // this run ends silently (it neither alarms nor keeps going)
            truncated = true;
            break;
        }
        if !out.viols.is_empty() {
            // a foreign violation that leaves model and arena in step: keep exploring, so that
            // one defect does not starve this property's exploration
            world.stats.probe("foreign_violation_run_continued");
        }
    }
    if let Some(p) = progress {
        p.idle();
    }
    let digest = world.log.0;
    let stats = std::mem::take(&mut world.stats);
    let clean = found.is_none() && !truncated && obs_panic.is_none();
    // end of run: every arena and clone is dropped; the ledger must then hold every payload
    // ever created, exactly once
    drop(world);
    if clean && T::NAME == "tracked" {
        let created = payload::ledger_created();
        let dropped = payload::ledger_dropped_count() as u64;
        let doubles = payload::ledger_doubles();
        if prop == "C08" && (created != dropped || !doubles.is_empty()) {
            found = Some(Found {
                viol: crate::world::viol(
                    "C08",
                    if !doubles.is_empty() { "payload_dropped_twice" } else { "payload_never_dropped" },
                    format!("{} payloads created, {} dropped after everything was dropped (doubles {:?})", created, dropped, doubles),
                ),
                at: ops.len().saturating_sub(1),
                op: "end_of_run".into(),
                rel: "-".into(),
            });
        }
    }
    RunOut {
        found,
        truncated_foreign: truncated,
        ops,
        stats,
        digest,
        steplog,
        obs_panic,
    }
}

pub fn exec_dyn(prop: &str, cfg: &ExecCfg, next: &mut dyn FnMut(&crate::model::Model) -> Option<Op>, progress: Option<&Progress>) -> RunOut {
    match cfg.payload.as_str() {
        "u8" => exec::<u8>(prop, cfg, |w| next(&w.m), progress),
        "wide" => exec::<Wide>(prop, cfg, |w| next(&w.m), progress),
        "string" => exec::<String>(prop, cfg, |w| next(&w.m), progress),
        "unit" => exec::<Unit>(prop, cfg, |w| next(&w.m), progress),
        "big" => exec::<Big>(prop, cfg, |w| next(&w.m), progress),
        "opt" => exec::<Opt>(prop, cfg, |w| next(&w.m), progress),
        _ => exec::<Tracked>(prop, cfg, |w| next(&w.m), progress),
    }
}

pub fn exec_list(prop: &str, cfg: &ExecCfg, ops: &[Op]) -> RunOut {
    let mut i = 0;
    exec_dyn(
        prop,
        cfg,
        &mut |_m| {
            let r = ops.get(i).cloned();
            i += 1;
            r
        },
        None,
    )
}

pub fn stream_of(prop: &str) -> &str {
    prop
}

/// One generated run: seed -> swarm configuration -> ops one at a time.
pub fn run_generated(prop: &str, batch: u64, idx: u64, progress: Option<&Progress>) -> (u64, GenCfg, RunOut) {
    let seed = run_seed(batch, stream_of(prop), idx);
    let mut rng = Rng::new(seed);
    let gcfg = GenCfg::draw(&mut rng, prop);
    let steps = gcfg.steps;
    if let Some(p) = progress {
        p.begin(idx, &gcfg.exec);
    }
    let mut gen = Gen::new(gcfg.clone());
    let mut produced = 0usize;
    let out = exec_dyn(
        prop,
        &gcfg.exec,
        &mut |m| {
            if produced >= steps {
                return None;
            }
            produced += 1;
            Some(gen.next_op(&mut rng, m))
        },
        progress,
    );
    (seed, gcfg, out)
}

// ---------------------------------------------------------------------------------------------
// watchdog (bounded liveness): each worker publishes the op it is about to execute

pub struct Progress {
    pub slot: Mutex<(Vec<Op>, Option<Instant>, u64, ExecCfg)>,
}
impl Progress {
    pub fn new() -> Progress {
        Progress {
            slot: Mutex::new((
                Vec::new(),
                None,
                0,
                ExecCfg {
                    payload: String::new(),
                    capacity: 0,
                    twin: false,
                    dense_reads: false,
                },
            )),
        }
    }
    pub fn begin(&self, idx: u64, cfg: &ExecCfg) {
        let mut s = self.slot.lock().unwrap();
        s.0.clear();
        s.1 = None;
        s.2 = idx;
        s.3 = cfg.clone();
    }
    pub fn publish(&self, op: &Op, _i: usize) {
        let mut s = self.slot.lock().unwrap();
        // CycleSlot ops are long by design; everything else takes microseconds
        s.0.push(op.clone());
        s.1 = Some(Instant::now());
    }
    pub fn idle(&self) {
        let mut s = self.slot.lock().unwrap();
        s.1 = None;
    }
}

// ---------------------------------------------------------------------------------------------
// known findings

#[derive(Clone, Debug)]
pub struct Known {
    pub property: String,
    pub sig: String,
    pub text: String,
}

pub fn load_known(path: &str) -> Vec<Known> {
    let mut v = Vec::new();
    let Ok(s) = std::fs::read_to_string(path) else { return v };
    for line in s.lines() {
        let line = line.trim();
        let Some(rest) = line.strip_prefix("known:") else { continue };
        let mut prop = String::new();
        let mut sig = String::new();
        let mut text = Vec::new();
        for tok in rest.split_whitespace() {
            if let Some(p) = tok.strip_prefix("property=") {
                prop = p.to_string();
            } else if let Some(s) = tok.strip_prefix("sig=") {
                sig = s.to_string();
            } else {
                text.push(tok);
            }
        }
        if !prop.is_empty() && !sig.is_empty() {
            v.push(Known {
                property: prop,
                sig,
                text: text.join(" "),
            });
        }
    }
    v
}

pub fn match_known<'a>(known: &'a [Known], prop: &str, f: &Found) -> Option<&'a Known> {
    let sig = f.signature();
    known.iter().find(|k| k.property == prop && sig.starts_with(&k.sig))
}

// ---------------------------------------------------------------------------------------------
// minimiser (delta debugging over the explicit op list)

fn same_failure(prop: &str, cfg: &ExecCfg, ops: &[Op], kind: &str, opname: &str) -> Option<Found> {
    // a candidate op list may drive a defective library into a call that does not return: every
    // re-execution runs on its own thread and is abandoned after 20 s (counts as "does not fail")
    let (tx, rx) = std::sync::mpsc::channel();
    let (prop2, cfg2, ops2) = (prop.to_string(), cfg.clone(), ops.to_vec());
    let _ = std::thread::Builder::new().stack_size(64 << 20).spawn(move || {
        let out = exec_list(&prop2, &cfg2, &ops2);
        let _ = tx.send(out.found);
    });
    match rx.recv_timeout(Duration::from_secs(20)) {
        Ok(Some(f)) if f.viol.kind == kind && f.op == opname => Some(f),
        _ => None,
    }
}

pub fn minimise(prop: &str, cfg: &ExecCfg, ops: &[Op], orig: &Found, budget: Duration) -> (ExecCfg, Vec<Op>, Found, u32) {
    let t0 = Instant::now();
    let mut execs = 0u32;
    let kind = orig.viol.kind;
    let opname = orig.op.clone();
    let mut cfg = cfg.clone();
    if ops.is_empty() {
        // the violation was found when the arena was created (e.g. with_capacity): nothing to shrink
        return (cfg, Vec::new(), orig.clone(), 0);
    }
    let mut cur: Vec<Op> = ops[..=orig.at.min(ops.len() - 1)].to_vec();
    let mut best = orig.clone();
    let mut try_ = |cfg: &ExecCfg, cand: &[Op], execs: &mut u32| -> Option<Found> {
        if t0.elapsed() > budget || *execs > 3000 {
            return None;
        }
        *execs += 1;
        same_failure(prop, cfg, cand, kind, &opname)
    };
    match try_(&cfg, &cur, &mut execs) {
        Some(f) => best = f,
        None => return (cfg, ops.to_vec(), orig.clone(), execs), // not reproducible when cut: keep the original
    }
    // ddmin: remove chunks
    let mut n = 2usize;
    while cur.len() >= 2 && t0.elapsed() < budget {
        let chunk = cur.len().div_ceil(n);
        let mut reduced = false;
        let mut i = 0;
        while i < cur.len() {
            let end = (i + chunk).min(cur.len());
            let mut cand = cur[..i].to_vec();
            cand.extend_from_slice(&cur[end..]);
            if cand.is_empty() {
                i = end;
                continue;
            }
            if let Some(f) = try_(&cfg, &cand, &mut execs) {
                cur = cand;
                cur.truncate(f.at + 1);
                best = f;
                reduced = true;
                n = n.saturating_sub(1).max(2);
                break;
            }
            i = end;
        }
        if !reduced {
            if chunk == 1 {
                break;
            }
            n = (n * 2).min(cur.len());
        }
    }
    // simplify parameters
    let simplify = |op: &Op| -> Vec<Op> {
        let mut v = Vec::new();
        match op {
            Op::New { k, val } if *val != 0 => v.push(Op::New { k: *k, val: 0 }),
            Op::AppendValue { p, k, val, slow } => {
                if *val != 0 {
                    v.push(Op::AppendValue { p: *p, k: *k, val: 0, slow: *slow });
                }
                if *slow {
                    v.push(Op::AppendValue { p: *p, k: *k, val: *val, slow: false });
                }
            }
            Op::Insert { kind, checked: false, a, b } => v.push(Op::Insert {
                kind: *kind,
                checked: true,
                a: *a,
                b: *b,
            }),
            Op::SetPayload { x, val, via } if *val != 0 || *via != 0 => v.push(Op::SetPayload { x: *x, val: 0, via: 0 }),
            Op::Reserve { n } if *n != 0 => v.push(Op::Reserve { n: 0 }),
            Op::CycleSlot { x, n, k, val } => {
                if *n > 1 {
                    v.push(Op::CycleSlot { x: *x, n: 1, k: *k, val: *val });
                    v.push(Op::CycleSlot { x: *x, n: n / 2, k: *k, val: *val });
                    v.push(Op::CycleSlot { x: *x, n: n - 1, k: *k, val: *val });
                }
            }
            Op::RestartSerde { fmt, io } if *io != 0 => v.push(Op::RestartSerde { fmt: *fmt, io: 0 }),
            Op::ObsPrint { x, mode, frag, sink_fail } => {
                if *frag != 0 {
                    v.push(Op::ObsPrint { x: *x, mode: *mode, frag: 0, sink_fail: *sink_fail });
                }
            }
            Op::ObsPull { x, it, word } if word.len() > 1 => {
                let mut w = word.clone();
                w.pop();
                v.push(Op::ObsPull { x: *x, it: *it, word: w });
            }
            _ => {}
        }
        v
    };
    let mut changed = true;
    while changed && t0.elapsed() < budget {
        changed = false;
        for i in 0..cur.len() {
            for alt in simplify(&cur[i]) {
                let mut cand = cur.clone();
                cand[i] = alt;
                if let Some(f) = try_(&cfg, &cand, &mut execs) {
                    cur = cand;
                    best = f;
                    changed = true;
                    break;
                }
            }
        }
    }
    for alt in [
        ExecCfg { twin: false, ..cfg.clone() },
        ExecCfg { dense_reads: false, ..cfg.clone() },
        ExecCfg { capacity: 0, ..cfg.clone() },
    ] {
        if alt != cfg {
            if let Some(f) = try_(&alt, &cur, &mut execs) {
                cfg = alt;
                best = f;
            }
        }
    }
    cur.truncate(best.at + 1);
    (cfg, cur, best, execs)
}

// ---------------------------------------------------------------------------------------------
// batches

pub struct BatchOpts {
    pub prop: String,
    pub tier: String,
    pub batch_seed: u64,
    pub runs: u64,
    pub start: u64,
    pub threads: usize,
    pub known: Vec<Known>,
    pub profile: String,
    pub features: String,
    pub replay_dir: String,
    pub max_wall: Duration,
}

pub struct BatchOut {
    pub runs_done: u64,
    pub stats: Stats,
    pub truncated_foreign: u64,
    pub violation: Option<(u64, u64, ExecCfg, Vec<Op>, Found)>,
    pub known_seen: BTreeMap<String, (String, u64)>,
    pub samples: Vec<serde_json::Value>,
    pub wall: f64,
    pub digests: Vec<(u64, u64)>,
    pub hang: Option<(u64, ExecCfg, Vec<Op>)>,
    pub obs_panics: u64,
    pub obs_panic_msg: String,
    /// workers lost in a call that did not return (bounded liveness watchdog)
    pub hangs: u64,
}

pub fn run_batch(o: &BatchOpts, want_digests: bool) -> BatchOut {
    let t0 = Instant::now();
    let next = Arc::new(AtomicU64::new(o.start));
    let stop = Arc::new(AtomicBool::new(false));
    let first_bad = Arc::new(AtomicU64::new(u64::MAX));
    let end = o.start + o.runs;
    let base_start = o.start;
    let lost: Arc<Mutex<Vec<bool>>> = Arc::new(Mutex::new(vec![false; o.threads]));
    let hangs = Arc::new(AtomicU64::new(0));
    let progresses: Vec<Arc<Progress>> = (0..o.threads).map(|_| Arc::new(Progress::new())).collect();
    let hang: Arc<Mutex<Option<(u64, ExecCfg, Vec<Op>)>>> = Arc::new(Mutex::new(None));
    struct WorkerOut {
        stats: Stats,
        runs: u64,
        truncated: u64,
        viols: Vec<(u64, u64, ExecCfg, Vec<Op>, Found)>,
        known: BTreeMap<String, (String, u64)>,
        samples: Vec<(u64, usize, bool, Vec<Op>, String)>,
        digests: Vec<(u64, u64)>,
        obs_panics: u64,
        obs_panic_msg: String,
    }
    let outs: Vec<Arc<Mutex<WorkerOut>>> = (0..o.threads)
        .map(|_| {
            Arc::new(Mutex::new(WorkerOut {
                stats: Stats::default(),
                runs: 0,
                truncated: 0,
                viols: Vec::new(),
                known: BTreeMap::new(),
                samples: Vec::new(),
                digests: Vec::new(),
                obs_panics: 0,
                obs_panic_msg: String::new(),
            }))
        })
        .collect();
    let mut handles = Vec::new();
    for w in 0..o.threads {
        let next = next.clone();
        let stop = stop.clone();
        let first_bad = first_bad.clone();
        let my_out = outs[w].clone();
        let prop = o.prop.clone();
        let batch = o.batch_seed;
        let known = o.known.clone();
        let progress = progresses[w].clone();
        let max_wall = o.max_wall;
        let h = std::thread::Builder::new()
            .stack_size(64 << 20)
            .spawn(move || {
                loop {
                    if stop.load(Ordering::Relaxed) {
                        break;
                    }
                    // chunks of 16 runs per fetch
                    let base = next.fetch_add(16, Ordering::Relaxed);
                    if base >= end {
                        break;
                    }
                    for idx in base..(base + 16).min(end) {
                        if idx > first_bad.load(Ordering::Relaxed) {
                            break;
                        }
                        if t0.elapsed() > max_wall {
                            stop.store(true, Ordering::Relaxed);
                            break;
                        }
                        let res = crate::util::catch(|| run_generated(&prop, batch, idx, Some(&progress)));
                        // results are merged into the shared slot after every run, so that a worker
                        // that is later lost in a call that does not return keeps what it found
                        let mut wo = my_out.lock().unwrap();
                        let (seed, gcfg, out) = match res {
                            Ok(x) => x,
                            Err(p) => {
                                wo.runs += 1;
                                wo.obs_panics += 1;
                                if wo.obs_panic_msg.is_empty() {
                                    wo.obs_panic_msg = format!("run {}: {}", idx, p);
                                }
                                continue;
                            }
                        };
                        wo.runs += 1;
                        if let Some(p) = &out.obs_panic {
                            wo.obs_panics += 1;
                            if wo.obs_panic_msg.is_empty() {
                                wo.obs_panic_msg = format!("run {}: {}", idx, p);
                            }
                        }
                        wo.stats.merge(&out.stats);
                        if want_digests {
                            wo.digests.push((idx, out.digest));
                        }
                        if out.truncated_foreign {
                            wo.truncated += 1;
                        }
                        // keep a few samples: shortest clean, first with faults
                        if out.found.is_none() && out.ops.len() >= 2 && out.ops.len() <= 12 && idx < base_start + 4096 {
                            // one fault-free and one faulty sample, the longest among the short runs
                            let has_fault = out.stats.faults.values().any(|v| *v > 0);
                            match wo.samples.iter_mut().find(|s| s.2 == has_fault) {
                                Some(s) if s.1 < out.ops.len() => *s = (idx, out.ops.len(), has_fault, out.ops.clone(), gcfg.exec.payload.clone()),
                                Some(_) => {}
                                None => wo.samples.push((idx, out.ops.len(), has_fault, out.ops.clone(), gcfg.exec.payload.clone())),
                            }
                        }
                        if let Some(f) = out.found {
                            if let Some(k) = match_known(&known, &prop, &f) {
                                let e = wo.known.entry(k.sig.clone()).or_insert((k.text.clone(), 0));
                                e.1 += 1;
                            } else {
                                first_bad.fetch_min(idx, Ordering::Relaxed);
                                wo.viols.push((idx, seed, gcfg.exec.clone(), out.ops, f));
                            }
                        }
                    }
                }
            })
            .unwrap();
        handles.push(h);
    }
    // watchdog: a call that does not return is a C02 finding ("every call returns")
    let wd_stop = Arc::new(AtomicBool::new(false));
    let wd = {
        let wd_stop = wd_stop.clone();
        let progresses = progresses.clone();
        let hang = hang.clone();
        let lost = lost.clone();
        let hangs = hangs.clone();
        std::thread::spawn(move || {
            while !wd_stop.load(Ordering::Relaxed) {
                std::thread::sleep(Duration::from_millis(200));
                for (w, p) in progresses.iter().enumerate() {
                    let s = p.slot.lock().unwrap();
                    if let Some(t) = s.1 {
                        if t.elapsed() > Duration::from_secs(60) && !lost.lock().unwrap()[w] {
                            // this worker is lost in a call that does not return; the others go on
                            lost.lock().unwrap()[w] = true;
                            hangs.fetch_add(1, Ordering::Relaxed);
                            let mut h = hang.lock().unwrap();
                            if h.is_none() {
                                *h = Some((s.2, s.3.clone(), s.0.clone()));
                            }
                        }
                    }
                }
            }
        })
    };
    loop {
        let l = lost.lock().unwrap().clone();
        if handles.iter().enumerate().all(|(i, h)| h.is_finished() || l[i]) {
            break;
        }
        let n_lost = l.iter().filter(|x| **x).count();
        if (o.prop == "C02" && n_lost > 0) || n_lost * 2 >= o.threads.max(2) {
            // C02 reports the first hang at once; any check gives up when half its workers are lost
            break;
        }
        std::thread::sleep(Duration::from_millis(20));
    }
    stop.store(true, Ordering::Relaxed);
    wd_stop.store(true, Ordering::Relaxed);
    let hang_v = hang.lock().unwrap().clone();
    let l = lost.lock().unwrap().clone();
    for (i, h) in handles.into_iter().enumerate() {
        if !l[i] && hang_v.is_none() {
            let _ = h.join();
        } else if !l[i] {
            // give the live workers a moment to finish their current run
            let t = Instant::now();
            while !h.is_finished() && t.elapsed() < Duration::from_secs(5) {
                std::thread::sleep(Duration::from_millis(10));
            }
        }
    }
    let _ = wd.join();
    let mut out = BatchOut {
        runs_done: 0,
        stats: Stats::default(),
        truncated_foreign: 0,
        violation: None,
        known_seen: BTreeMap::new(),
        samples: Vec::new(),
        wall: 0.0,
        digests: Vec::new(),
        hang: hang_v,
        obs_panics: 0,
        obs_panic_msg: String::new(),
        hangs: 0,
    };
    let mut samples: Vec<(u64, usize, bool, Vec<Op>, String)> = Vec::new();
    out.hangs = hangs.load(Ordering::Relaxed);
    for slot in &outs {
        let Ok(mut guard) = slot.try_lock() else { continue };
        let wo = std::mem::replace(
            &mut *guard,
            WorkerOut {
                stats: Stats::default(),
                runs: 0,
                truncated: 0,
                viols: Vec::new(),
                known: BTreeMap::new(),
                samples: Vec::new(),
                digests: Vec::new(),
                obs_panics: 0,
                obs_panic_msg: String::new(),
            },
        );
        drop(guard);
        out.runs_done += wo.runs;
        out.truncated_foreign += wo.truncated;
        out.obs_panics += wo.obs_panics;
        if out.obs_panic_msg.is_empty() {
            out.obs_panic_msg = wo.obs_panic_msg.clone();
        }
        out.stats.merge(&wo.stats);
        for v in wo.viols {
            if out.violation.as_ref().map_or(true, |b| v.0 < b.0) {
                out.violation = Some(v);
            }
        }
        for (k, (t, n)) in wo.known {
            let e = out.known_seen.entry(k).or_insert((t, 0));
            e.1 += n;
        }
        samples.extend(wo.samples);
        out.digests.extend(wo.digests);
    }
    samples.sort_by_key(|s| (s.2, std::cmp::Reverse(s.1), s.0));
    samples.dedup_by_key(|s| s.2);
    for s in samples.into_iter().take(3) {
        out.samples.push(serde_json::json!({
            "run_index": s.0, "payload": s.4, "with_faults": s.2,
            "ops": serde_json::to_value(&s.3).unwrap_or_default()
        }));
    }
    out.digests.sort();
    out.wall = t0.elapsed().as_secs_f64();
    out
}

pub fn write_replay(dir: &str, o: &BatchOpts, idx: u64, seed: u64, cfg: &ExecCfg, ops: &[Op], f: &Found, minimised: bool, original_len: usize, note: &str) -> String {
    let _ = std::fs::create_dir_all(dir);
    let path = format!("{}/{}-{}-{}.json", dir, o.prop, o.batch_seed, idx);
    let rp = Replay {
        engine: "histsim".into(),
        engine_version: ENGINE_VERSION,
        property: o.prop.clone(),
        batch_seed: o.batch_seed,
        run_index: idx,
        run_seed: seed,
        profile: o.profile.clone(),
        features: o.features.clone(),
        cfg: cfg.clone(),
        ops: ops.to_vec(),
        violation: ViolationRec {
            property: f.viol.prop.to_string(),
            step: f.at,
            kind: f.viol.kind.to_string(),
            op: f.op.clone(),
            rel: f.rel.clone(),
            detail: f.viol.detail.clone(),
        },
        minimised,
        original_len,
        note: note.to_string(),
    };
    let _ = std::fs::write(&path, serde_json::to_string_pretty(&rp).unwrap());
    path
}

pub fn digest_of_list(d: &[(u64, u64)]) -> u64 {
    let mut h = Fnv::new();
    for (i, x) in d {
        h.u64(*i);
        h.u64(*x);
    }
    h.0
}
