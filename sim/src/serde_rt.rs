//! Crash-restart through the serialised form (C16): serialise to the simulated disk, deserialise
//! a copy, keep the original as a lock-step twin for the rest of the run.
//! Without feature `ix-deser` the op degrades to RestartClone so that op lists and event logs
//! are the same in every build (C17).

use crate::payload::Payload;
use crate::world::{StepOut, World};

#[cfg(feature = "ix-deser")]
mod imp {
    use super::*;
    use crate::disk::{DiskReader, DiskWriter, Faults};
    use crate::payload;
    use crate::util::{catch, trunc};
    use crate::world::{viol, ShadowKind, Viol};
    use indextree::Arena;
    use std::io::BufReader;

    pub fn encode<T: Payload>(arena: &Arena<T>, fmt: u8, f: &mut Faults) -> Result<Vec<u8>, String> {
        let mut w = DiskWriter { data: Vec::new(), f };
        let r = if fmt % 2 == 0 {
            serde_json::to_writer(&mut w, arena).map_err(|e| e.to_string())
        } else {
            crate::serde_bin::to_writer(&mut w, arena).map_err(|e| e.to_string())
        };
        r.map(|_| w.data)
    }
    pub fn decode<T: Payload>(bytes: &[u8], fmt: u8, f: &mut Faults) -> Result<Arena<T>, String> {
        let rd = DiskReader { data: bytes, pos: 0, f };
        if fmt % 2 == 0 {
            serde_json::from_reader(BufReader::with_capacity(64, rd)).map_err(|e| e.to_string())
        } else {
            crate::serde_bin::from_reader(BufReader::with_capacity(64, rd)).map_err(|e| e.to_string())
        }
    }

    impl<T: Payload> World<T> {
        pub fn do_restart_serde(&mut self, fmt: u8, io: u64, out: &mut StepOut) {
            self.stats.fault(if fmt % 2 == 0 { "R-serde-json" } else { "R-serde-bin" });
            let mut faults = Faults::from_seed(io);
            let arena = &self.arena;
            let r = catch(|| {
                let bytes = encode(arena, fmt, &mut faults)?;
                let copy: Arena<T> = decode(&bytes, fmt, &mut faults)?;
                Ok::<_, String>((bytes, copy))
            });
            let st = faults.stats.clone();
            for _ in 0..st.short_writes {
                self.stats.fault("F-short-write");
            }
            for _ in 0..st.short_reads {
                self.stats.fault("F-short-read");
            }
            for _ in 0..st.eintr {
                self.stats.fault("F-eintr");
            }
            let (bytes, copy) = match r {
                Ok(Ok(x)) => x,
                Ok(Err(e)) => {
                    out.viols.push(viol("C16", "round_trip_failed", format!("fmt {}: {}", fmt, trunc(&e, 200))));
                    return;
                }
                Err(p) => {
                    out.viols.push(viol("C16", "round_trip_panicked", format!("fmt {}: {}", fmt, trunc(&p, 200))));
                    return;
                }
            };
            // F-torn-write: observed only (no property speaks about torn data)
            if io != 0 && bytes.len() > 2 {
                let mut tf = Faults::from_seed(io ^ 0x5555);
                let cut = 1 + tf.rng.usize_below(bytes.len() - 1);
                tf.torn_at = Some(cut);
                let arena = &self.arena;
                let torn = catch(|| {
                    let mut w = DiskWriter { data: Vec::new(), f: &mut tf };
                    let res = if fmt % 2 == 0 {
                        serde_json::to_writer(&mut w, arena).map_err(|e| e.to_string())
                    } else {
                        crate::serde_bin::to_writer(&mut w, arena).map_err(|e| e.to_string())
                    };
                    (res.is_err(), w.data)
                });
                if let Ok((failed, prefix)) = torn {
                    if failed {
                        self.stats.fault("F-torn-write");
                        let mut nf = Faults::none();
                        match catch(|| decode::<T>(&prefix, fmt, &mut nf)) {
                            Ok(Ok(_)) => self.stats.probe("torn_prefix_deserialised_ok"),
                            Ok(Err(_)) => self.stats.probe("torn_prefix_rejected"),
                            Err(_) => self.stats.probe("torn_prefix_panicked"),
                        }
                    }
                }
            }
            if !self.m.free.is_empty() {
                self.stats.probe("restart_with_nonempty_free_set");
            }
            if self.m.nodes.values().any(|n| n.live && n.recycled) {
                self.stats.probe("serde_restart_with_recycled_slot");
            }
            let mut v: Vec<Viol> = Vec::new();
            if copy != self.arena {
                v.push(viol("C16", "copy_not_equal", format!("fmt {}: deserialize(serialize(a)) != a", fmt)));
            }
            if self.digest_plain(&copy) != self.digest_plain(&self.arena) {
                v.push(viol("C16", "copy_observably_differs", format!("fmt {}", fmt)));
            }
            // is_removed agrees for every id the ledger knows
            if copy.count() == self.arena.count() {
                let m = &self.m;
                let orig = &self.arena;
                let cp = &copy;
                let r = catch(|| {
                    for hist in &m.issued {
                        let l = hist.len();
                        let idxs: Vec<usize> = if l <= 48 {
                            (0..l).collect()
                        } else {
                            (0..16).chain(l - 32..l).collect()
                        };
                        for i in idxs {
                            if hist[i].is_removed(orig) != hist[i].is_removed(cp) {
                                return Some(format!("id #{} of slot {}", i + 1, crate::world::slot_of(hist[i])));
                            }
                        }
                    }
                    None
                });
                match r {
                    Ok(None) => {}
                    Ok(Some(d)) => v.push(viol("C16", "is_removed_disagrees", d)),
                    Err(p) => v.push(viol("C16", "is_removed_panicked_on_copy", p)),
                }
            }
            if !v.is_empty() {
                out.viols.extend(v);
                return;
            }
            // continue on the copy; the original is the twin from here on
            let _ = payload::ledger_mark();
            let original = std::mem::replace(&mut self.arena, copy);
            self.shadow = Some((original, ShadowKind::SerdeOrig));
            self.resync_serials();
            self.obs_lookup(&mut out.viols);
        }
    }
}

#[cfg(not(feature = "ix-deser"))]
impl<T: Payload> World<T> {
    pub fn do_restart_serde(&mut self, _fmt: u8, _io: u64, out: &mut StepOut) {
        self.mutate(&crate::ops::Op::RestartClone, out);
    }
}
