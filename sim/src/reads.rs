//! Read-side oracles: traversals (C09, and the iterator clause of C02), double-ended pull
//! schedules (C10), lookup-path agreement (C11), pretty printer over the stream seam (C14),
//! drain probe (C07), par_iter (C17).

use crate::model::Model;
use crate::ops::Key;
use crate::payload::{self, Payload};
use crate::prng::Fnv;
use crate::util::{catch, trunc};
use crate::world::{slot_of, viol, Viol, World};
use indextree::{Arena, NodeEdge, NodeId};
use std::collections::BTreeSet;
use std::fmt::Write as _;
use std::num::NonZeroUsize;

#[derive(Clone, Copy, PartialEq, Eq, Debug)]
pub enum MEdge {
    Start(Key),
    End(Key),
}

pub fn m_traverse(m: &Model, s: Key) -> Vec<MEdge> {
    fn rec(m: &Model, k: Key, out: &mut Vec<MEdge>) {
        out.push(MEdge::Start(k));
        for c in &m.n(k).kids {
            rec(m, *c, out);
        }
        out.push(MEdge::End(k));
    }
    let mut out = Vec::new();
    rec(m, s, &mut out);
    out
}

fn collect_bounded<I: Iterator>(it: I, budget: usize) -> (Vec<I::Item>, bool) {
    let mut v = Vec::new();
    let mut it = it;
    for _ in 0..budget {
        match it.next() {
            Some(x) => v.push(x),
            None => return (v, true),
        }
    }
    (v, false)
}

/// The provided `Iterator` methods must agree with `next()` at every point of consumption: an
/// override of `last` / `count` / `nth` / `size_hint` (a plausible optimisation) is part of what
/// the iterator yields.
fn provided_methods<I>(name: &str, start: usize, mk: &dyn Fn() -> I, seq: &[I::Item], v: &mut Vec<Viol>)
where
    I: Iterator + Clone,
    I::Item: PartialEq + Copy + std::fmt::Debug,
{
    let len = seq.len();
    if len > 24 {
        return;
    }
    for k in [0, len / 2, len, len + 1] {
        let mut it = mk();
        for _ in 0..k {
            it.next();
        }
        let k = k.min(len);
        let rest = &seq[k..];
        let (lo, hi) = it.size_hint();
        let mut bad: Option<String> = None;
        if lo > rest.len() || hi.is_some_and(|h| h < rest.len()) {
            bad = Some(format!("size_hint ({}, {:?}) with {} items left", lo, hi, rest.len()));
        } else if it.clone().count() != rest.len() {
            bad = Some(format!("count() = {} with {} items left", it.clone().count(), rest.len()));
        } else if it.clone().last() != rest.last().copied() {
            bad = Some(format!("last() = {:?}, expected {:?}", it.clone().last(), rest.last()));
        } else if it.clone().nth(1) != rest.get(1).copied() {
            bad = Some(format!("nth(1) = {:?}, expected {:?}", it.clone().nth(1), rest.get(1)));
        }
        if let Some(b) = bad {
            v.push(viol("C09", "provided_method_disagrees_with_next", format!("{} from {} after {} pulls: {}", name, start, k, b)));
            return;
        }
    }
}

fn ids_str(v: &[NodeId]) -> String {
    let s: Vec<String> = v.iter().map(|i| slot_of(*i).to_string()).collect();
    format!("[{}]", s.join(","))
}

struct Sink {
    buf: String,
    calls: u32,
    fail_at: Option<u32>,
    failed: bool,
}
impl std::fmt::Write for Sink {
    fn write_str(&mut self, s: &str) -> std::fmt::Result {
        self.calls += 1;
        if let Some(k) = self.fail_at {
            if self.calls >= k {
                self.failed = true;
                return Err(std::fmt::Error);
            }
        }
        self.buf.push_str(s);
        Ok(())
    }
}

impl<T: Payload> World<T> {
    fn ids(&self, ks: &[Key]) -> Vec<NodeId> {
        ks.iter().map(|k| self.m.id(*k)).collect()
    }

    /// C09 (+ iterator finiteness / at-most-once of C02) from every live start node.
    pub fn obs_traverse(&mut self, viols: &mut Vec<Viol>) {
        let r = catch(|| self.obs_traverse_inner());
        match r {
            Ok((v, h)) => {
                viols.extend(v);
                self.log.u64(h);
            }
            Err(p) => {
                viols.push(viol("C09", "panic_in_traversal", p.clone()));
                viols.push(viol("C05", "panic_in_valid_call", format!("traversal panicked: {}", p)));
            }
        }
    }

    #[allow(deprecated)]
    fn obs_traverse_inner(&self) -> (Vec<Viol>, u64) {
        let mut v: Vec<Viol> = Vec::new();
        let hh = std::cell::Cell::new(Fnv::new());
        let arena = &self.arena;
        let m = &self.m;
        let budget = 2 * arena.count() + 3;
        let mut live = m.live_keys();
        if live.len() > 64 {
            // large forest: a deterministic sample of start nodes that always contains the deepest
            // node, the node with most children, the first members of the top-level chains and
            // every (n/40)-th node
            let stride = live.len().div_ceil(40);
            let mut s: Vec<Key> = live.iter().copied().step_by(stride).collect();
            s.push(live.iter().copied().max_by_key(|k| (m.depth(*k), *k)).unwrap());
            s.push(live.iter().copied().max_by_key(|k| (m.n(*k).kids.len(), *k)).unwrap());
            for c in m.chains.values().take(8) {
                s.push(c[0]);
                s.push(*c.last().unwrap());
                s.push(m.root_of(c[0]));
            }
            let deepest = *s.iter().max_by_key(|k| m.depth(**k)).unwrap();
            s.push(m.root_of(deepest));
            s.sort_unstable();
            s.dedup();
            live = s;
        }
        let edge_id = |e: &MEdge| match e {
            MEdge::Start(k) => NodeEdge::Start(m.id(*k)),
            MEdge::End(k) => NodeEdge::End(m.id(*k)),
        };
        for &s in &live {
            let sid = m.id(s);
            // expected sequences from the model lists
            let mut anc = vec![s];
            let mut cur = m.parent(s);
            while let Some(p) = cur {
                anc.push(p);
                cur = m.parent(p);
            }
            let mut pred = vec![s];
            let mut c = s;
            loop {
                match m.prev(c).or(m.parent(c)) {
                    Some(x) => {
                        pred.push(x);
                        c = x;
                    }
                    None => break,
                }
            }
            let list = m.list(m.n(s).loc);
            let pos = list.iter().position(|x| *x == s).unwrap();
            let preceding: Vec<Key> = list[..=pos].iter().rev().copied().collect();
            let following: Vec<Key> = list[pos..].to_vec();
            let kids = m.n(s).kids.clone();
            let rkids: Vec<Key> = kids.iter().rev().copied().collect();
            let desc = m.subtree(s);
            let trav = m_traverse(m, s);

            let mut node_check = |name: &'static str, got: (Vec<NodeId>, bool), exp: &[Key]| {
                let (seq, finished) = got;
                let mut h = hh.get();
                h.str(name);
                for i in &seq {
                    h.u64(slot_of(*i) as u64);
                }
                hh.set(h);
                if !finished {
                    v.push(viol("C02", "iterator_not_finite", format!("{} from {} yields more than {} items", name, slot_of(sid), budget)));
                    v.push(viol("C09", "iterator_not_finite", format!("{} from {}", name, slot_of(sid))));
                    return;
                }
                let set: BTreeSet<NodeId> = seq.iter().copied().collect();
                if set.len() != seq.len() {
                    v.push(viol("C02", "iterator_yields_node_twice", format!("{} from {}: {}", name, slot_of(sid), ids_str(&seq))));
                }
                let e = self.ids(exp);
                if seq != e {
                    v.push(viol(
                        "C09",
                        "wrong_sequence",
                        format!("{} from {}: got {} expected {}", name, slot_of(sid), ids_str(&seq), ids_str(&e)),
                    ));
                }
            };
            node_check("ancestors", collect_bounded(sid.ancestors(arena), budget), &anc);
            node_check("predecessors", collect_bounded(sid.predecessors(arena), budget), &pred);
            node_check("preceding_siblings", collect_bounded(sid.preceding_siblings(arena), budget), &preceding);
            node_check("following_siblings", collect_bounded(sid.following_siblings(arena), budget), &following);
            node_check("children", collect_bounded(sid.children(arena), budget), &kids);
            node_check("reverse_children", collect_bounded(sid.reverse_children(arena), budget), &rkids);
            node_check("descendants", collect_bounded(sid.descendants(arena), budget), &desc);
            if v.is_empty() {
                let st = slot_of(sid);
                provided_methods("ancestors", st, &|| sid.ancestors(arena), &self.ids(&anc), &mut v);
                provided_methods("predecessors", st, &|| sid.predecessors(arena), &self.ids(&pred), &mut v);
                provided_methods("preceding_siblings", st, &|| sid.preceding_siblings(arena), &self.ids(&preceding), &mut v);
                provided_methods("following_siblings", st, &|| sid.following_siblings(arena), &self.ids(&following), &mut v);
                provided_methods("children", st, &|| sid.children(arena), &self.ids(&kids), &mut v);
                provided_methods("reverse_children", st, &|| sid.reverse_children(arena), &self.ids(&rkids), &mut v);
                provided_methods("descendants", st, &|| sid.descendants(arena), &self.ids(&desc), &mut v);
            }

            let exp_t: Vec<NodeEdge> = trav.iter().map(edge_id).collect();
            let exp_r: Vec<NodeEdge> = exp_t.iter().rev().copied().collect();
            let mut edge_check = |name: &'static str, got: (Vec<NodeEdge>, bool), exp: &[NodeEdge]| {
                let (seq, finished) = got;
                let mut h = hh.get();
                h.str(name);
                for e in &seq {
                    match e {
                        NodeEdge::Start(i) => h.u64(slot_of(*i) as u64 * 2),
                        NodeEdge::End(i) => h.u64(slot_of(*i) as u64 * 2 + 1),
                    }
                }
                hh.set(h);
                if !finished {
                    v.push(viol("C02", "iterator_not_finite", format!("{} from {} yields more than {} items", name, slot_of(sid), budget)));
                    v.push(viol("C09", "iterator_not_finite", format!("{} from {}", name, slot_of(sid))));
                    return;
                }
                let mut seen: Vec<NodeEdge> = Vec::new();
                let mut dup = false;
                for e in &seq {
                    if seen.contains(e) {
                        dup = true;
                        break;
                    }
                    seen.push(*e);
                }
                if dup {
                    v.push(viol("C02", "iterator_yields_edge_twice", format!("{} from {}", name, slot_of(sid))));
                }
                if seq != exp {
                    v.push(viol(
                        "C09",
                        "wrong_sequence",
                        format!("{} from {}: got {} edges {:?}.. expected {} edges", name, slot_of(sid), seq.len(), seq.iter().take(6).collect::<Vec<_>>(), exp.len()),
                    ));
                }
            };
            edge_check("traverse", collect_bounded(sid.traverse(arena), 2 * budget), &exp_t);
            edge_check("reverse_traverse", collect_bounded(sid.reverse_traverse(arena), 2 * budget), &exp_r);
            if v.is_empty() {
                provided_methods("traverse", slot_of(sid), &|| sid.traverse(arena), &exp_t, &mut v);
                provided_methods("reverse_traverse", slot_of(sid), &|| sid.reverse_traverse(arena), &exp_r, &mut v);
            }
            // stepping with next_traverse / prev_traverse reproduces the two sequences
            let mut step_f = vec![NodeEdge::Start(sid)];
            let mut cur = NodeEdge::Start(sid);
            let mut fin = false;
            for _ in 0..2 * budget {
                if cur == NodeEdge::End(sid) {
                    fin = true;
                    break;
                }
                match cur.next_traverse(arena) {
                    Some(e) => {
                        step_f.push(e);
                        cur = e;
                    }
                    None => break,
                }
            }
            if !fin || step_f != exp_t {
                v.push(viol("C09", "next_traverse_stepping_differs", format!("from Start({})", slot_of(sid))));
            }
            let mut step_b = vec![NodeEdge::End(sid)];
            let mut cur = NodeEdge::End(sid);
            let mut fin = false;
            for _ in 0..2 * budget {
                if cur == NodeEdge::Start(sid) {
                    fin = true;
                    break;
                }
                match cur.prev_traverse(arena) {
                    Some(e) => {
                        step_b.push(e);
                        cur = e;
                    }
                    None => break,
                }
            }
            if !fin || step_b != exp_r {
                v.push(viol("C09", "prev_traverse_stepping_differs", format!("from End({})", slot_of(sid))));
            }
            // the two steps are inverses of each other, on the whole forest
            for e in [NodeEdge::Start(sid), NodeEdge::End(sid)] {
                if let Some(f) = e.next_traverse(arena) {
                    if f.prev_traverse(arena) != Some(e) {
                        v.push(viol("C09", "steps_not_inverse", format!("{:?}.next = {:?} but its prev is {:?}", e, f, f.prev_traverse(arena))));
                    }
                }
                if let Some(f) = e.prev_traverse(arena) {
                    if f.next_traverse(arena) != Some(e) {
                        v.push(viol("C09", "steps_not_inverse", format!("{:?}.prev = {:?} but its next is {:?}", e, f, f.next_traverse(arena))));
                    }
                }
            }
            // C12: no traversal of a live node leads to a removed node (membership only)
            if v.len() > 8 {
                break;
            }
        }
        (v, hh.get().0)
    }

    /// C10: one pull schedule on one double-ended iterator.
    pub fn obs_pull(&mut self, x: Key, it: u8, word: &[bool], viols: &mut Vec<Viol>) {
        let mut h = Fnv::new();
        h.u8(it);
        for b in word {
            h.u8(*b as u8);
        }
        self.stats.schedules.insert(h.0);
        let m = &self.m;
        let arena = &self.arena;
        let xid = m.id(x);
        let name: &'static str = ["children", "preceding_siblings", "following_siblings"][(it % 3) as usize];
        // The reference sequence E is what plain forward iteration of the real iterator yields:
        // the DoubleEndedIterator laws are laws of the iterator with itself, so C10 is decided
        // model-free. (Whether E is the documented sequence is C09's business, checked below.)
        let budget = 2 * arena.count() + 3;
        let fwd = catch(|| {
            let mut v: Vec<NodeId> = Vec::new();
            let mut push_all = |it: &mut dyn Iterator<Item = NodeId>| {
                for _ in 0..budget {
                    match it.next() {
                        Some(i) => v.push(i),
                        None => return true,
                    }
                }
                false
            };
            let fin = match it % 3 {
                0 => push_all(&mut xid.children(arena)),
                1 => push_all(&mut xid.preceding_siblings(arena)),
                _ => push_all(&mut xid.following_siblings(arena)),
            };
            (v, fin)
        });
        let e: Vec<NodeId> = match fwd {
            Ok((v, true)) => v,
            Ok((_, false)) => {
                viols.push(viol("C02", "iterator_not_finite", format!("{} of {}", name, slot_of(xid))));
                return;
            }
            Err(p) => {
                viols.push(viol("C10", "panic_in_iterator", p));
                return;
            }
        };
        let parentless;
        if self.blind {
            parentless = arena.get(xid).is_some_and(|n| n.parent().is_none());
        } else {
            let list = m.list(m.n(x).loc);
            let pos = list.iter().position(|k| *k == x).unwrap();
            let exp: Vec<Key> = match it % 3 {
                0 => m.n(x).kids.clone(),
                1 => list[..=pos].iter().rev().copied().collect(),
                _ => list[pos..].to_vec(),
            };
            parentless = m.parent(x).is_none();
            let em = self.ids(&exp);
            if em != e {
                viols.push(viol(
                    "C09",
                    "wrong_sequence",
                    format!("{} from {}: got {} expected {}", name, slot_of(xid), ids_str(&e), ids_str(&em)),
                ));
            }
        }
        if parentless && it % 3 != 0 && word.iter().any(|b| !*b) {
            self.stats.probe("back_pull_on_parentless_node");
        }
        let word = word.to_vec();
        let r = catch(move || {
            let mut out: Vec<Viol> = Vec::new();
            enum It<'a, T> {
                C(indextree::Children<'a, T>),
                P(indextree::PrecedingSiblings<'a, T>),
                F(indextree::FollowingSiblings<'a, T>),
            }
            let mut iter = match it % 3 {
                0 => It::C(xid.children(arena)),
                1 => It::P(xid.preceding_siblings(arena)),
                _ => It::F(xid.following_siblings(arena)),
            };
            let (mut nf, mut nb, mut got_some) = (0usize, 0usize, 0usize);
            let clone_at = word.len() / 2;
            for (i, front) in word.iter().enumerate() {
                if i == clone_at {
                    // the iterators are plain values: a clone taken mid-way continues identically
                    iter = match &iter {
                        It::C(x) => It::C(x.clone()),
                        It::P(x) => It::P(x.clone()),
                        It::F(x) => It::F(x.clone()),
                    };
                }
                let g = match (&mut iter, *front) {
                    (It::C(i), true) => i.next(),
                    (It::C(i), false) => i.next_back(),
                    (It::P(i), true) => i.next(),
                    (It::P(i), false) => i.next_back(),
                    (It::F(i), true) => i.next(),
                    (It::F(i), false) => i.next_back(),
                };
                let want = if got_some < e.len() {
                    if *front {
                        Some(e[nf])
                    } else {
                        Some(e[e.len() - 1 - nb])
                    }
                } else {
                    None
                };
                if g != want {
                    out.push(viol(
                        "C10",
                        if *front { "front_pull_wrong" } else { "back_pull_wrong" },
                        format!(
                            "{} of {}{}: pull #{} ({}) returned {:?}, expected {:?}; forward sequence {}",
                            name,
                            slot_of(xid),
                            if parentless { " (parentless)" } else { "" },
                            i + 1,
                            if *front { "front" } else { "back" },
                            g.map(slot_of),
                            want.map(slot_of),
                            ids_str(&e)
                        ),
                    ));
                    break;
                }
                if g.is_some() {
                    got_some += 1;
                    if *front {
                        nf += 1;
                    } else {
                        nb += 1;
                    }
                }
            }
            out
        });
        match r {
            Ok(v) => viols.extend(v),
            Err(p) => viols.push(viol("C10", "panic_in_iterator", p)),
        }
    }

    /// C11: all lookup paths agree, for every position including out-of-range ones.
    pub fn obs_lookup(&mut self, viols: &mut Vec<Viol>) {
        let r = catch(|| self.obs_lookup_inner());
        match r {
            Ok(v) => viols.extend(v),
            Err(p) => viols.push(viol("C11", "panic_in_lookup", p)),
        }
    }

    fn obs_lookup_inner(&mut self) -> Vec<Viol> {
        let mut v: Vec<Viol> = Vec::new();
        let count = self.arena.count();
        // donor arena: source of ids for out-of-range positions and of foreign node references
        let mut donor: Arena<T> = Arena::new();
        for i in 0..count + 3 {
            donor.new_node(T::make(i as u32));
        }
        if self.arena.iter().count() != count || self.arena.as_slice().len() != count {
            v.push(viol("C11", "count_disagrees", format!("count {} iter {} slice {}", count, self.arena.iter().count(), self.arena.as_slice().len())));
        }
        if self.arena.is_empty() != (count == 0) {
            v.push(viol("C11", "is_empty_disagrees", format!("count {}", count)));
        }
        let mut positions: Vec<usize> = (1..=count + 2).collect();
        positions.push(usize::MAX);
        for i in positions {
            let nz = NonZeroUsize::new(i).unwrap();
            let got = self.arena.get_node_id_at(nz);
            if i > count {
                if got.is_some() {
                    v.push(viol("C11", "get_node_id_at_out_of_range", format!("position {} > count {} gave Some", i, count)));
                }
                if i != usize::MAX {
                    let foreign = donor.get_node_id_at(nz).unwrap();
                    if self.arena.get(foreign).is_some() {
                        v.push(viol("C11", "get_out_of_range", format!("get(id at position {}) with count {} gave Some", i, count)));
                    }
                }
                continue;
            }
            let occ = self.m.slot_key[i - 1];
            let live = occ.filter(|k| self.m.is_live(*k));
            match live {
                None => {
                    if got.is_some() {
                        v.push(viol("C11", "get_node_id_at_removed", format!("position {} is removed but get_node_id_at gave Some", i)));
                    }
                }
                Some(k) => {
                    let x = self.m.id(k);
                    if got != Some(x) {
                        v.push(viol("C11", "get_node_id_at_wrong", format!("position {}: {:?}", i, got.map(slot_of))));
                        continue;
                    }
                    let p_get = self.arena.get(x).map(|n| n as *const _ as usize);
                    let p_idx = &self.arena[x] as *const _ as usize;
                    let p_mut = self.arena.get_mut(x).map(|n| n as *mut _ as usize);
                    let p_idxmut = &mut self.arena[x] as *mut _ as usize;
                    let p_slice = &self.arena.as_slice()[i - 1] as *const _ as usize;
                    let p_iter = self.arena.iter().nth(i - 1).map(|n| n as *const _ as usize);
                    let p_itermut = self.arena.iter_mut().nth(i - 1).map(|n| n as *mut _ as usize);
                    if p_get != Some(p_idx)
                        || p_mut != Some(p_idx)
                        || p_idxmut != p_idx
                        || p_slice != p_idx
                        || p_iter != Some(p_idx)
                        || p_itermut != Some(p_idx)
                    {
                        v.push(viol("C11", "lookup_paths_disagree", format!("position {}: get/index/get_mut/as_slice/iter address different nodes", i)));
                    }
                    if self.arena.get_node_id(&self.arena[x]) != Some(x) {
                        v.push(viol(
                            "C11",
                            "get_node_id_wrong",
                            format!("get_node_id(&arena[id@{}]) = {:?}", i, self.arena.get_node_id(&self.arena[x]).map(slot_of)),
                        ));
                    }
                    if usize::from(x) != i || NonZeroUsize::from(x).get() != i || x.to_string() != i.to_string() {
                        v.push(viol("C11", "id_conversion_wrong", format!("position {}: usize {} Display {}", i, usize::from(x), x)));
                    }
                    // foreign references
                    if self.arena.get_node_id(&donor[x]).is_some() {
                        v.push(viol("C11", "get_node_id_foreign_some", format!("node of another arena (position {}) was attributed to this arena", i)));
                    }
                }
            }
            if v.len() > 6 {
                return v;
            }
        }
        // node references that are not stored in this arena: a clone's node, a boxed copy
        let clone = self.arena.clone();
        for n in clone.iter().take(3) {
            if self.arena.get_node_id(n).is_some() {
                v.push(viol("C11", "get_node_id_foreign_some", "node of a clone was attributed to this arena"));
            }
        }
        if let Some(n) = self.arena.iter().next() {
            let b = Box::new(n.clone());
            if self.arena.get_node_id(&b).is_some() {
                v.push(viol("C11", "get_node_id_foreign_some", "boxed copy of a node was attributed to this arena"));
            }
        }
        for n in donor.iter().take(2) {
            if self.arena.get_node_id(n).is_some() {
                v.push(viol("C11", "get_node_id_foreign_some", "node of a donor arena was attributed to this arena"));
            }
        }
        // boundary probe: a foreign node stored exactly where this arena's storage ends.
        // A clone (exact-capacity storage) and a small second arena are allocated back to back.
        if count >= 1 && count <= 200 {
            let nsz = std::mem::size_of::<indextree::Node<T>>();
            let nal = std::mem::align_of::<indextree::Node<T>>();
            crate::bump::open(nal, count * nsz, 2 * nsz);
            let x = self.arena.clone();
            let mut y: Arena<T> = Arena::with_capacity(2);
            crate::bump::close();
            y.new_node(T::make(1));
            y.new_node(T::make(2));
            let end = x.as_slice().as_ptr_range().end;
            if y.count() == 2 && std::ptr::eq(end, y.as_slice().as_ptr()) {
                self.stats.probe("foreign_node_at_one_past_the_end_address");
                if x != self.arena {
                    v.push(viol("C13", "clone_not_equal", "a.clone() != a (lookup probe)"));
                }
                let got = x.get_node_id(&y.as_slice()[0]);
                if got.is_some() {
                    v.push(viol(
                        "C11",
                        "get_node_id_foreign_some",
                        format!(
                            "a node of another arena stored directly behind this arena's storage was attributed to this arena (position {:?}, count {})",
                            got.map(slot_of),
                            count
                        ),
                    ));
                }
                let got2 = y.get_node_id(&x.as_slice()[count - 1]);
                if got2.is_some() {
                    v.push(viol("C11", "get_node_id_foreign_some", "a node stored directly in front of another arena's storage was attributed to that arena"));
                }
            }
            drop(y);
            drop(x);
        }
        v
    }

    /// reference renderer written from the statement of C14
    fn render_ref(&self, x: Key, mode: u8) -> Vec<String> {
        fn own_lines<T: Payload>(w: &World<T>, k: Key, mode: u8) -> Vec<String> {
            let p = w.arena[w.m.id(k)].get();
            let s = match mode & 3 {
                0 => format!("{}", p),
                1 => format!("{:#}", p),
                2 => format!("{:?}", p),
                _ => format!("{:#?}", p),
            };
            s.split('\n').map(|l| l.to_string()).collect()
        }
        fn rec<T: Payload>(w: &World<T>, k: Key, mode: u8, first: &str, rest: &str, out: &mut Vec<String>) {
            for (i, l) in own_lines(w, k, mode).into_iter().enumerate() {
                out.push(format!("{}{}", if i == 0 { first } else { rest }, l));
            }
            let kids = &w.m.n(k).kids;
            for (i, c) in kids.iter().enumerate() {
                let last = i + 1 == kids.len();
                let (branch, guide) = if last { ("`-- ", "    ") } else { ("|-- ", "|   ") };
                rec(w, *c, mode, &format!("{}{}", rest, branch), &format!("{}{}", rest, guide), out);
            }
        }
        let mut out = Vec::new();
        rec(self, x, mode, "", "", &mut out);
        out
    }

    /// C14 over the stream seam: the payload source fragments its writes, the sink may fail.
    pub fn obs_print(&mut self, x: Key, mode: u8, frag: u8, sink_fail: Option<u32>, viols: &mut Vec<Viol>) {
        payload::set_frag(0);
        let expected = match catch(|| self.render_ref(x, mode)) {
            Ok(e) => e,
            Err(p) => {
                viols.push(viol("C14", "panic_in_payload_render", p));
                return;
            }
        };
        let xid = self.m.id(x);
        if frag != 0 {
            self.stats.fault("F-frag");
        }
        if self.m.parent(x).is_some() && (self.m.next(x).is_some() || self.m.prev(x).is_some()) {
            self.stats.probe("print_from_inner_node_with_siblings");
        }
        payload::set_frag(frag);
        let arena = &self.arena;
        let r = catch(|| {
            let mut sink = Sink {
                buf: String::new(),
                calls: 0,
                fail_at: sink_fail,
                failed: false,
            };
            let res = match mode & 3 {
                0 => write!(sink, "{}", xid.debug_pretty_print(arena)),
                1 => write!(sink, "{:#}", xid.debug_pretty_print(arena)),
                2 => write!(sink, "{:?}", xid.debug_pretty_print(arena)),
                _ => write!(sink, "{:#?}", xid.debug_pretty_print(arena)),
            };
            (sink, res)
        });
        payload::set_frag(0);
        match r {
            Err(p) => viols.push(viol("C14", "print_panicked", format!("mode {} frag {}: {}", mode, frag, trunc(&p, 160)))),
            Ok((sink, res)) => {
                if sink.failed {
                    self.stats.fault("F-sink");
                    // relaxed oracle, deliberately narrow: no panic (checked above); the rest is recorded
                    if res.is_err() {
                        self.stats.probe("sink_error_propagated");
                    } else {
                        self.stats.probe("sink_error_swallowed");
                    }
                    return;
                }
                if res.is_err() {
                    viols.push(viol("C14", "print_failed_without_sink_error", format!("mode {}", mode)));
                    return;
                }
                self.log.str(&sink.buf);
                let got: Vec<String> = sink.buf.split('\n').map(|l| l.trim_end().to_string()).collect();
                let exp: Vec<String> = expected.iter().map(|l| l.trim_end().to_string()).collect();
                if got != exp {
                    let first_diff = got.iter().zip(exp.iter()).position(|(a, b)| a != b).unwrap_or(got.len().min(exp.len()));
                    viols.push(viol(
                        "C14",
                        "rendering_differs",
                        format!(
                            "mode {} frag {} from k{}: {} lines vs {} expected; first difference at line {}: got {:?} expected {:?}",
                            mode,
                            frag,
                            x,
                            got.len(),
                            exp.len(),
                            first_diff + 1,
                            got.get(first_diff),
                            exp.get(first_diff)
                        ),
                    ));
                }
            }
        }
    }

    /// C07 drain probe on a clone: allocate until the arena grows; the slots handed out on the way
    /// must be exactly the free set, each once.
    pub fn obs_drain(&mut self, viols: &mut Vec<Viol>) {
        let free_eff = self.m.free_effective();
        let arena = &self.arena;
        let limit = free_eff.len() + self.m.retired.len() + 2;
        let r = catch(|| {
            let mut c = arena.clone();
            let start = c.count();
            let mut got: Vec<usize> = Vec::new();
            for _ in 0..limit {
                let id = c.new_node(T::make(0));
                if c.count() > start {
                    return (got, true);
                }
                got.push(slot_of(id));
            }
            (got, false)
        });
        match r {
            Err(p) => viols.push(viol("C07", "panic_in_allocation", p)),
            Ok((got, grew)) => {
                let gotset: BTreeSet<usize> = got.iter().copied().collect();
                if gotset.len() != got.len() {
                    viols.push(viol("C07", "slot_handed_out_twice", format!("drain handed out {:?}", got)));
                    return;
                }
                if !grew {
                    viols.push(viol("C07", "drain_did_not_terminate", format!("{:?}", got)));
                    return;
                }
                for s in &gotset {
                    if !free_eff.contains(s) {
                        viols.push(viol("C07", "slot_not_free", format!("drain handed out slot {} which is not in the free set {:?}", s, free_eff)));
                        return;
                    }
                }
                for s in &free_eff {
                    if !gotset.contains(s) {
                        if self.m.retire_eligible(*s) {
                            self.m.retired.insert(*s);
                            self.stats.probe("slot_retired");
                        } else {
                            viols.push(viol(
                                "C07",
                                "free_slot_lost",
                                format!("slot {} was removed (recycled {} times) but is never handed out again; drain gave {:?}", s, self.m.recycles[s - 1], got),
                            ));
                            return;
                        }
                    }
                }
                if free_eff.len() >= 2 {
                    self.stats.probe("drain_with_free_set_size_ge_2");
                }
            }
        }
    }

    /// C13 (d): with_capacity(n) and reserve(k) guarantee room for n and count()+k nodes, for
    /// payload types of very different sizes (the guarantee is generic in T).
    pub fn obs_capacity(&mut self, n: u32, ty: u8, viols: &mut Vec<Viol>) {
        fn probe<X: Default>(n: usize, name: &str, viols: &mut Vec<Viol>) {
            let r = catch(|| {
                let a: Arena<X> = Arena::with_capacity(n);
                let c1 = a.capacity();
                let empty = a.is_empty() && a.count() == 0;
                drop(a);
                let mut b: Arena<X> = Arena::new();
                b.new_node(X::default());
                b.new_node(X::default());
                b.reserve(n);
                (c1, empty, b.capacity(), b.count())
            });
            match r {
                Ok((c1, empty, c2, cnt)) => {
                    if c1 < n {
                        viols.push(viol("C13", "with_capacity_too_small", format!("Arena::<{}>::with_capacity({}) has capacity {}", name, n, c1)));
                    }
                    if !empty {
                        viols.push(viol("C13", "new_arena_not_empty", format!("Arena::<{}>::with_capacity({})", name, n)));
                    }
                    if c2 < cnt + n {
                        viols.push(viol("C13", "reserve_too_small", format!("Arena::<{}>: reserve({}) at count {} gave capacity {}", name, n, cnt, c2)));
                    }
                }
                Err(p) => viols.push(viol("C13", "capacity_call_panicked", format!("{} n={}: {}", name, n, trunc(&p, 120)))),
            }
        }
        #[derive(Clone)]
        struct B4k([u8; 4096]);
        impl Default for B4k {
            fn default() -> Self {
                B4k([0; 4096])
            }
        }
        #[derive(Clone)]
        struct B8k([u8; 8192]);
        impl Default for B8k {
            fn default() -> Self {
                B8k([0; 8192])
            }
        }
        #[derive(Clone)]
        struct W32k([u64; 4096]);
        impl Default for W32k {
            fn default() -> Self {
                W32k([0; 4096])
            }
        }
        self.stats.probe("capacity_probe");
        if n == u32::MAX {
            // no such room can exist: the documented outcome is a panic (capacity overflow); an arena
            // that comes back without room for n breaks the guarantee
            let r = catch(|| Arena::<u8>::with_capacity(usize::MAX).capacity());
            self.stats.probe("with_capacity_usize_max");
            if let Ok(c) = r {
                if c < usize::MAX {
                    viols.push(viol("C13", "with_capacity_too_small", format!("Arena::<u8>::with_capacity(usize::MAX) returned an arena with capacity {}", c)));
                }
            }
            return;
        }
        let n = n as usize;
        match ty % 6 {
            0 => probe::<()>(n, "()", viols),
            1 => probe::<u8>(n, "u8", viols),
            2 => probe::<B4k>(n.min(2000), "[u8; 4096]", viols),
            3 => probe::<B8k>(n.min(1500), "[u8; 8192]", viols),
            4 => probe::<W32k>(n.min(600), "[u64; 4096]", viols),
            _ => probe::<String>(n, "String", viols),
        }
    }

    /// C17: par_iter visits exactly the nodes of iter (same order with an indexed collect).
    pub fn obs_par(&mut self, threads: u8, viols: &mut Vec<Viol>) {
        let _ = threads;
        let arena = &self.arena;
        let key = |n: &indextree::Node<T>| -> (bool, Option<usize>, Option<usize>, String) {
            (
                n.is_removed(),
                n.parent().map(slot_of),
                n.next_sibling().map(slot_of),
                if n.is_removed() { String::new() } else { n.get().canon() },
            )
        };
        let seq: Vec<_> = arena.iter().map(key).collect();
        let sl: Vec<_> = arena.as_slice().iter().map(key).collect();
        if seq != sl {
            viols.push(viol("C11", "iter_differs_from_as_slice", ""));
        }
        #[cfg(feature = "ix-par")]
        {
            crate::par::check_par(self, threads, &seq, viols);
        }
    }
}
