//! `tree!` as an *operation* (workload for C07's "new_node, append_value, tree!" allocation paths
//! and for C17's feature-differential replay). Not a claim about C15.
//! With feature `ix-macros` the literal goes through the proc macro; otherwise the same shape is
//! spelt with new_node / append_value, so the op list and the model are the same in every build.

use crate::ops::Key;
use crate::payload::Payload;
use crate::util::catch;
use crate::world::{slot_of, Class, StepOut, World};
use indextree::{Arena, NodeId};

/// depth (1 = child of the root) of every written node, in textual order
pub fn shape_depths(shape: u8) -> &'static [u8] {
    match shape % 6 {
        0 => &[],
        1 => &[1, 1],
        2 => &[1, 2, 1],
        3 => &[1, 2, 3, 1, 2, 2],
        4 => &[1, 1, 1],
        _ => &[1, 2, 2],
    }
}
pub fn shape_nodes(shape: u8) -> usize {
    shape_depths(shape).len()
}

pub enum Root<T> {
    Id(NodeId),
    Val(T),
}

#[cfg(feature = "ix-macros")]
fn run_shape<T: Payload>(arena: &mut Arena<T>, root: Root<T>, shape: u8, val: u32) -> NodeId {
    use indextree::macros::tree;
    let mk = |i: u32| T::make(val.wrapping_add(i));
    macro_rules! lit {
        ($root:expr) => {
            match shape % 6 {
                0 => tree!(arena, $root),
                1 => tree!(arena, $root => { mk(1), mk(2) }),
                2 => tree!(arena, $root => { mk(1) => { mk(2) }, mk(3) }),
                3 => tree!(arena, $root => { mk(1) => { mk(2) => { mk(3) } }, mk(4) => { mk(5), mk(6) } }),
                4 => tree!(arena, $root => { mk(1), mk(2) => {}, mk(3), }),
                _ => tree!(arena, $root => { mk(1) => { mk(2), mk(3), }, },),
            }
        };
    }
    match root {
        Root::Id(id) => lit!(id),
        Root::Val(v) => lit!(v),
    }
}

#[cfg(not(feature = "ix-macros"))]
fn run_shape<T: Payload>(arena: &mut Arena<T>, root: Root<T>, shape: u8, val: u32) -> NodeId {
    let r = match root {
        Root::Id(id) => id,
        Root::Val(v) => arena.new_node(v),
    };
    let mut stack = vec![r];
    for (i, d) in shape_depths(shape).iter().enumerate() {
        stack.truncate(*d as usize);
        let parent = *stack.last().unwrap();
        let c = parent.append_value(T::make(val.wrapping_add(i as u32 + 1)), arena);
        stack.push(c);
    }
    r
}

pub fn raw_tree<T: Payload>(arena: &mut Arena<T>, root: Option<NodeId>, shape: u8, val: u32) -> Result<NodeId, String> {
    catch(|| {
        let root = match root {
            Some(id) => Root::Id(id),
            None => Root::Val(T::make(val)),
        };
        run_shape(arena, root, shape, val)
    })
}

impl<T: Payload> World<T> {
    pub fn do_tree_macro(&mut self, shape: u8, root: Option<Key>, kbase: Key, val: u32, out: &mut StepOut) {
        let depths = shape_depths(shape);
        let root_id = root.map(|k| self.m.id(k));
        if let Some(rk) = root.filter(|k| self.m.is_tomb(*k)) {
            // tree! under a removed node: every written child is an attempt to insert under it and
            // must be refused (the expansion's append_value panics) without changing the arena (C12)
            let _ = rk;
            self.stats.probe("tree_macro_on_tombstone");
            let snapshot = self.arena.clone();
            let obs = self.state_digest();
            let r = raw_tree(&mut self.arena, root_id, shape, val);
            let unchanged = self.arena == snapshot && self.state_digest() == obs;
            out.rel = crate::rel::Rel::TombA;
            match r {
                Err(_) => {
                    out.class = Class::Panic;
                    if !unchanged {
                        out.viols.push(crate::world::viol("C12", "changed_after_refused_call", "tree! with a removed root panicked but changed the arena"));
                        self.diverged = true;
                    }
                }
                Ok(_) => {
                    if !depths.is_empty() {
                        out.viols.push(crate::world::viol("C12", "insert_under_removed_accepted", "tree! with a removed root and at least one written child did not panic"));
                        self.diverged = true;
                    } else if !unchanged {
                        out.viols.push(crate::world::viol("C12", "changed_after_refused_call", "tree! with a removed root and no children changed the arena"));
                        self.diverged = true;
                    }
                }
            }
            return;
        }
        let count_before = self.arena.count();
        let old_kids = root.map_or(0, |k| self.m.n(k).kids.len());
        let r = raw_tree(&mut self.arena, root_id, shape, val);
        let rid = match r {
            Ok(id) => id,
            Err(p) => {
                self.unexpected_panic("C07", "tree!", &p, out);
                return;
            }
        };
        if let Some(id) = root_id {
            if id != rid {
                self.diverged = true; // C15's business (not claimed): wrong root returned
                return;
            }
        }
        // recover the ids in allocation (= textual) order by walking the real links along the
        // written shape; a shape mismatch is C15's business -> end the run silently
        let budget = self.arena.count() + 2;
        let kids_of = |a: &Arena<T>, p: NodeId| -> Option<Vec<NodeId>> {
            let mut v = Vec::new();
            let mut it = p.children(a);
            for _ in 0..budget {
                match it.next() {
                    Some(c) => v.push(c),
                    None => return Some(v),
                }
            }
            None
        };
        let mut ids: Vec<NodeId> = Vec::new(); // per written node
        let mut stack: Vec<(NodeId, usize)> = vec![(rid, old_kids)]; // (real parent, next child index)
        let mut ok = true;
        for d in depths {
            stack.truncate(*d as usize);
            let (p, idx) = *stack.last().unwrap();
            match kids_of(&self.arena, p) {
                Some(ch) if idx < ch.len() => {
                    let c = ch[idx];
                    stack.last_mut().unwrap().1 += 1;
                    ids.push(c);
                    stack.push((c, 0));
                }
                _ => {
                    ok = false;
                    break;
                }
            }
        }
        if !ok {
            self.diverged = true;
            return;
        }
        // adopt: root first (when created), then the written nodes in textual order
        let mut cnt = count_before;
        let mut key = kbase;
        let mut all: Vec<(NodeId, u32)> = Vec::new();
        if root.is_none() {
            all.push((rid, val));
        }
        for (i, id) in ids.iter().enumerate() {
            all.push((*id, val.wrapping_add(i as u32 + 1)));
        }
        let mut keys: Vec<Key> = Vec::new();
        for (id, v) in &all {
            let known = self.m.slot_key.len();
            let after = if slot_of(*id) == known + 1 { cnt + 1 } else { cnt };
            if !self.check_alloc_at(key, *id, *v, cnt, after, &mut out.viols) {
                self.diverged = true;
                return;
            }
            cnt = after;
            keys.push(key);
            key += 1;
        }
        if cnt != self.arena.count() {
            self.diverged = true;
            return;
        }
        // model: attach along the shape
        let root_key = match root {
            Some(k) => k,
            None => keys[0],
        };
        let written = if root.is_none() { &keys[1..] } else { &keys[..] };
        let mut kstack = vec![root_key];
        for (i, d) in depths.iter().enumerate() {
            kstack.truncate(*d as usize);
            let p = *kstack.last().unwrap();
            self.m.attach_child(p, written[i], false);
            kstack.push(written[i]);
        }
        out.class = Class::Ok;
        self.stats.probe("tree_macro_op");
        let raw = crate::world::Raw {
            class: Class::Ok,
            text: String::new(),
            ids: vec![rid],
        };
        self.apply_shadow(
            |sh| match raw_tree(sh, root_id, shape, val) {
                Ok(i) => crate::world::Raw {
                    class: Class::Ok,
                    text: String::new(),
                    ids: vec![i],
                },
                Err(p) => crate::world::Raw {
                    class: Class::Panic,
                    text: p,
                    ids: vec![],
                },
            },
            &raw,
            "tree!",
            &mut out.viols,
        );
    }
}
