//! Harness-owned PRNG (SplitMix64 -> xoshiro256**). Identical stream in every build,
//! feature set and under Miri. One integer decides everything.

#[derive(Clone, Debug)]
pub struct Rng {
    s: [u64; 4],
}

pub fn splitmix(x: &mut u64) -> u64 {
    *x = x.wrapping_add(0x9E37_79B9_7F4A_7C15);
    let mut z = *x;
    z = (z ^ (z >> 30)).wrapping_mul(0xBF58_476D_1CE4_E5B9);
    z = (z ^ (z >> 27)).wrapping_mul(0x94D0_49BB_1331_11EB);
    z ^ (z >> 31)
}

pub fn fnv(s: &str) -> u64 {
    let mut h: u64 = 0xcbf2_9ce4_8422_2325;
    for b in s.bytes() {
        h ^= b as u64;
        h = h.wrapping_mul(0x100_0000_01b3);
    }
    h
}

/// seed(P, i) = mix(VERIF_SEED, fnv(P), i)
pub fn run_seed(batch: u64, stream: &str, index: u64) -> u64 {
    let mut x = batch ^ 0x1234_5678_9abc_def0;
    let a = splitmix(&mut x);
    let mut y = a ^ fnv(stream);
    let b = splitmix(&mut y);
    let mut z = b ^ index.wrapping_mul(0xD6E8_FEB8_6659_FD93);
    splitmix(&mut z)
}

impl Rng {
    pub fn new(seed: u64) -> Rng {
        let mut x = seed;
        let s = [
            splitmix(&mut x),
            splitmix(&mut x),
            splitmix(&mut x),
            splitmix(&mut x),
        ];
        Rng { s }
    }
    pub fn next_u64(&mut self) -> u64 {
        let r = self.s[1].wrapping_mul(5).rotate_left(7).wrapping_mul(9);
        let t = self.s[1] << 17;
        self.s[2] ^= self.s[0];
        self.s[3] ^= self.s[1];
        self.s[1] ^= self.s[2];
        self.s[0] ^= self.s[3];
        self.s[2] ^= t;
        self.s[3] = self.s[3].rotate_left(45);
        r
    }
    /// uniform in 0..n (n > 0)
    pub fn below(&mut self, n: u64) -> u64 {
        debug_assert!(n > 0);
        // multiply-shift; bias is irrelevant for our purposes but keep it deterministic
        ((self.next_u64() as u128 * n as u128) >> 64) as u64
    }
    pub fn range(&mut self, lo: u64, hi_incl: u64) -> u64 {
        lo + self.below(hi_incl - lo + 1)
    }
    pub fn usize_below(&mut self, n: usize) -> usize {
        self.below(n as u64) as usize
    }
    /// true with probability num/den
    pub fn chance(&mut self, num: u64, den: u64) -> bool {
        self.below(den) < num
    }
    pub fn coin(&mut self) -> bool {
        self.next_u64() & 1 == 1
    }
    pub fn pick<'a, T>(&mut self, xs: &'a [T]) -> &'a T {
        &xs[self.usize_below(xs.len())]
    }
    /// index drawn with the given weights; None if all weights are zero
    pub fn weighted(&mut self, w: &[u32]) -> Option<usize> {
        let total: u64 = w.iter().map(|x| *x as u64).sum();
        if total == 0 {
            return None;
        }
        let mut r = self.below(total);
        for (i, x) in w.iter().enumerate() {
            if r < *x as u64 {
                return Some(i);
            }
            r -= *x as u64;
        }
        None
    }
}

/// 64-bit FNV-1a accumulator used for digests.
#[derive(Clone, Copy, Debug)]
pub struct Fnv(pub u64);
impl Default for Fnv {
    fn default() -> Self {
        Fnv(0xcbf2_9ce4_8422_2325)
    }
}
impl Fnv {
    pub fn new() -> Fnv {
        Fnv::default()
    }
    pub fn u8(&mut self, b: u8) {
        self.0 ^= b as u64;
        self.0 = self.0.wrapping_mul(0x100_0000_01b3);
    }
    pub fn u64(&mut self, v: u64) {
        for b in v.to_le_bytes() {
            self.u8(b);
        }
    }
    pub fn str(&mut self, s: &str) {
        self.u64(s.len() as u64);
        for b in s.bytes() {
            self.u8(b);
        }
    }
}
