//! Build guard for the type-level clause of C18. This crate only has to *compile*.
//! `all::<T>()` is generic in `T`, so it is the "for every T: Send + Sync" statement, not a sample.
//! Compilation, not simulation: it is the precondition without which threadsim's scenario could
//! not even share the arena, and it is labelled as such (`trusted_base`) in the evidence.
#![forbid(unsafe_code)]
#![allow(deprecated)]
#![cfg_attr(feature = "nightly", feature(freeze))]

use indextree::{
    Ancestors, Arena, Children, DebugPrettyPrint, Descendants, FollowingSiblings, Node, NodeEdge, NodeError, NodeId, PrecedingSiblings,
    Predecessors, ReverseChildren, ReverseTraverse, Traverse,
};
use std::panic::{RefUnwindSafe, UnwindSafe};

fn is<X: Send + Sync>() {}

/// Arena<T>, Node<T>, NodeId and every public iterator / printer are Send and Sync whenever T is.
pub fn all<T: Send + Sync + 'static>() {
    is::<Arena<T>>();
    is::<Node<T>>();
    is::<NodeId>();
    is::<NodeEdge>();
    is::<NodeError>();
    is::<Ancestors<'static, T>>();
    is::<Predecessors<'static, T>>();
    is::<PrecedingSiblings<'static, T>>();
    is::<FollowingSiblings<'static, T>>();
    is::<Children<'static, T>>();
    is::<ReverseChildren<'static, T>>();
    is::<Descendants<'static, T>>();
    is::<Traverse<'static, T>>();
    is::<ReverseTraverse<'static, T>>();
    is::<DebugPrettyPrint<'static, T>>();
}

fn plain<X: UnwindSafe + RefUnwindSafe>() {}

/// Heuristic for "no interior mutability": `UnsafeCell` (hence `Cell`, `RefCell`, `OnceCell`) is
/// not `RefUnwindSafe`, so a field of that family anywhere in these types fails this bound.
/// (Atomics and mutexes are `RefUnwindSafe`; those are left to the schedule exploration.)
pub fn no_cells<T: UnwindSafe + RefUnwindSafe + 'static>() {
    plain::<Arena<T>>();
    plain::<Node<T>>();
    plain::<NodeId>();
    plain::<NodeEdge>();
    plain::<Traverse<'static, T>>();
    plain::<Children<'static, T>>();
}

/// A shared arena can be handed to scoped threads (what threadsim does).
pub fn share<T: Send + Sync>(arena: &Arena<T>) -> usize {
    std::thread::scope(|s| {
        let a = s.spawn(|| arena.count());
        let b = s.spawn(|| arena.iter().count());
        a.join().unwrap() + b.join().unwrap()
    })
}

/// "No interior mutability", decided by the compiler (nightly `Freeze` auto trait): no
/// `UnsafeCell` - hence no `Cell`, `RefCell`, atomic, `Mutex`, `OnceLock` - directly inside any of
/// these types, for every `T` that has none itself. Interior mutability hidden behind a pointer
/// (`Box<AtomicUsize>`) escapes this bound; that is left to the schedule exploration.
#[cfg(feature = "nightly")]
pub mod frozen {
    use super::*;
    use core::marker::Freeze;
    fn frozen<X: Freeze>() {}
    pub fn all<T: Freeze + 'static>() {
        frozen::<Arena<T>>();
        frozen::<Node<T>>();
        frozen::<NodeId>();
        frozen::<NodeEdge>();
        frozen::<NodeError>();
        frozen::<Ancestors<'static, T>>();
        frozen::<Predecessors<'static, T>>();
        frozen::<PrecedingSiblings<'static, T>>();
        frozen::<FollowingSiblings<'static, T>>();
        frozen::<Children<'static, T>>();
        frozen::<ReverseChildren<'static, T>>();
        frozen::<Descendants<'static, T>>();
        frozen::<Traverse<'static, T>>();
        frozen::<ReverseTraverse<'static, T>>();
        frozen::<DebugPrettyPrint<'static, T>>();
    }
}
