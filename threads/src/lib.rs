//! Engine `threadsim` (C18, and the par_iter clause of C17): scenarios shared by the shuttle
//! binary (seeded random / PCT schedules at call granularity) and the Miri binary (seeded
//! preemption at basic-block granularity, data-race detector, weak-memory emulation).
//!
//! A scenario is: an arena built by a seeded history (so it has removed slots, recycled slots and
//! top-level sibling chains), per-thread lists of read operations drawn from the harness PRNG
//! *before* any thread exists (the workload does not depend on the schedule), and the result of
//! every read computed single-threaded. Threads then perform their reads concurrently on one
//! shared `&Arena` and must observe exactly the single-thread results, under every schedule.

#[path = "../../sim/src/prng.rs"]
pub mod prng;

use indextree::{Arena, NodeEdge, NodeId};
use prng::{Fnv, Rng};
use std::num::NonZeroUsize;

#[derive(Clone, Copy, Debug, PartialEq, Eq)]
pub enum ReadKind {
    Ancestors,
    Predecessors,
    Preceding,
    Following,
    PrecedingRev,
    FollowingRev,
    Children,
    ChildrenRev,
    ReverseChildren,
    Descendants,
    Traverse,
    ReverseTraverse,
    Get,
    GetNodeId,
    GetNodeIdAt,
    Iter,
    Pretty,
    /// pretty print into a sink that fails after a few writes (an abandoned formatting run must
    /// leave nothing behind that a later print, on any thread, could see)
    PrettyFail,
}
pub const KINDS: [ReadKind; 18] = [
    ReadKind::Ancestors,
    ReadKind::Predecessors,
    ReadKind::Preceding,
    ReadKind::Following,
    ReadKind::PrecedingRev,
    ReadKind::FollowingRev,
    ReadKind::Children,
    ReadKind::ChildrenRev,
    ReadKind::ReverseChildren,
    ReadKind::Descendants,
    ReadKind::Traverse,
    ReadKind::ReverseTraverse,
    ReadKind::Get,
    ReadKind::GetNodeId,
    ReadKind::GetNodeIdAt,
    ReadKind::Iter,
    ReadKind::Pretty,
    ReadKind::PrettyFail,
];

#[derive(Clone, Copy, Debug)]
pub struct Read {
    pub kind: ReadKind,
    pub node: NodeId,
}

pub struct Scenario {
    pub arena: Arena<String>,
    pub live: Vec<NodeId>,
    pub reads: Vec<Vec<Read>>,
    pub expected: Vec<Vec<u64>>,
}

pub fn live_ids(arena: &Arena<String>) -> Vec<NodeId> {
    (1..=arena.count())
        .filter_map(|i| arena.get_node_id_at(NonZeroUsize::new(i).unwrap()))
        .collect()
}

/// Build an arena by a seeded history of valid calls (checked forms; refusals are ignored).
pub fn build_arena(rng: &mut Rng, steps: usize, max_live: usize) -> Arena<String> {
    let mut a: Arena<String> = Arena::new();
    let mut serial = 0u32;
    for _ in 0..steps {
        let live = live_ids(&a);
        let mut mk = || {
            serial += 1;
            if serial % 5 == 0 {
                format!("n{}\nline2", serial)
            } else {
                format!("n{}", serial)
            }
        };
        if live.is_empty() || (live.len() < max_live && rng.chance(1, 3)) {
            if live.is_empty() || rng.coin() {
                a.new_node(mk());
            } else {
                let p = *rng.pick(&live);
                p.append_value(mk(), &mut a);
            }
            continue;
        }
        let x = *rng.pick(&live);
        let y = *rng.pick(&live);
        match rng.below(12) {
            0..=2 => {
                let _ = x.checked_append(y, &mut a);
            }
            3 => {
                let _ = x.checked_prepend(y, &mut a);
            }
            4 | 5 => {
                // top-level sibling chains: prefer a parentless target
                let roots: Vec<NodeId> = live.iter().copied().filter(|i| a[*i].parent().is_none()).collect();
                let t = if !roots.is_empty() && rng.coin() { *rng.pick(&roots) } else { x };
                let _ = t.checked_insert_after(y, &mut a);
            }
            6 => {
                let _ = x.checked_insert_before(y, &mut a);
            }
            7 => x.detach(&mut a),
            8 | 9 => x.remove(&mut a),
            10 => {
                if live.len() > 3 {
                    x.remove_subtree(&mut a)
                }
            }
            _ => {
                a.new_node(mk());
            }
        }
    }
    if live_ids(&a).is_empty() {
        a.new_node("last".to_string());
    }
    a
}

fn hid(h: &mut Fnv, id: NodeId) {
    h.u64(usize::from(id) as u64);
}

/// Evaluate one read; `pause` is called between every iterator step (scheduling point under
/// shuttle, no-op natively and under Miri, which preempts by itself).
#[allow(deprecated)]
pub fn eval(arena: &Arena<String>, r: Read, pause: &dyn Fn()) -> u64 {
    let mut h = Fnv::new();
    let n = r.node;
    macro_rules! walk {
        ($it:expr) => {{
            let mut it = $it;
            loop {
                pause();
                match it.next() {
                    Some(x) => hid(&mut h, x),
                    None => break,
                }
            }
        }};
    }
    match r.kind {
        ReadKind::Ancestors => walk!(n.ancestors(arena)),
        ReadKind::Predecessors => walk!(n.predecessors(arena)),
        ReadKind::Preceding => walk!(n.preceding_siblings(arena)),
        ReadKind::Following => walk!(n.following_siblings(arena)),
        ReadKind::PrecedingRev => walk!(n.preceding_siblings(arena).rev()),
        ReadKind::FollowingRev => walk!(n.following_siblings(arena).rev()),
        ReadKind::Children => walk!(n.children(arena)),
        ReadKind::ChildrenRev => walk!(n.children(arena).rev()),
        ReadKind::ReverseChildren => walk!(n.reverse_children(arena)),
        ReadKind::Descendants => walk!(n.descendants(arena)),
        ReadKind::Traverse | ReadKind::ReverseTraverse => {
            let fwd = r.kind == ReadKind::Traverse;
            let mut t = n.traverse(arena);
            let mut rt = n.reverse_traverse(arena);
            loop {
                pause();
                let e = if fwd { t.next() } else { rt.next() };
                match e {
                    Some(NodeEdge::Start(x)) => {
                        h.u8(1);
                        hid(&mut h, x)
                    }
                    Some(NodeEdge::End(x)) => {
                        h.u8(2);
                        hid(&mut h, x)
                    }
                    None => break,
                }
            }
        }
        ReadKind::Get => {
            let node = arena.get(n).unwrap();
            h.str(node.get());
            pause();
            for l in [node.parent(), node.previous_sibling(), node.next_sibling(), node.first_child(), node.last_child()] {
                match l {
                    Some(x) => hid(&mut h, x),
                    None => h.u8(0),
                }
            }
            h.u8(n.is_removed(arena) as u8);
        }
        ReadKind::GetNodeId => {
            let node = &arena[n];
            pause();
            match arena.get_node_id(node) {
                Some(x) => {
                    hid(&mut h, x);
                    h.u8((x == n) as u8);
                }
                None => h.u8(0),
            }
        }
        ReadKind::GetNodeIdAt => {
            for i in 1..=arena.count() + 1 {
                pause();
                match arena.get_node_id_at(NonZeroUsize::new(i).unwrap()) {
                    Some(x) => hid(&mut h, x),
                    None => h.u8(0),
                }
            }
        }
        ReadKind::Iter => {
            for node in arena.iter() {
                pause();
                h.u8(node.is_removed() as u8);
                if !node.is_removed() {
                    h.str(node.get());
                }
            }
            h.u64(arena.count() as u64);
        }
        ReadKind::PrettyFail => {
            struct Bounded {
                left: usize,
                buf: String,
            }
            impl std::fmt::Write for Bounded {
                fn write_str(&mut self, s: &str) -> std::fmt::Result {
                    if self.left == 0 {
                        return Err(std::fmt::Error);
                    }
                    self.left -= 1;
                    self.buf.push_str(s);
                    Ok(())
                }
            }
            use std::fmt::Write as _;
            pause();
            let mut sink = Bounded {
                left: 2 + usize::from(n) % 4,
                buf: String::new(),
            };
            let r = write!(sink, "{:?}", n.debug_pretty_print(arena));
            h.u8(r.is_ok() as u8);
            h.str(&sink.buf);
        }
        ReadKind::Pretty => {
            pause();
            let s = format!("{:?}", n.debug_pretty_print(arena));
            h.str(&s);
            pause();
            let s = format!("{}", n.debug_pretty_print(arena));
            h.str(&s);
        }
    }
    h.0
}

pub fn build_scenario(seed: u64, threads: usize, reads_per_thread: usize, steps: usize, max_live: usize) -> Scenario {
    let mut rng = Rng::new(seed);
    let arena = build_arena(&mut rng, steps, max_live);
    let live = live_ids(&arena);
    let mut reads = Vec::new();
    for _ in 0..threads {
        let mut v = Vec::new();
        for _ in 0..reads_per_thread {
            // a third of the reads go to the double-ended sibling iterators of parentless nodes
            let roots: Vec<NodeId> = live.iter().copied().filter(|i| arena[*i].parent().is_none()).collect();
            if !roots.is_empty() && rng.chance(1, 3) {
                v.push(Read {
                    kind: *rng.pick(&[ReadKind::FollowingRev, ReadKind::PrecedingRev, ReadKind::Following, ReadKind::Preceding]),
                    node: *rng.pick(&roots),
                });
                continue;
            }
            v.push(Read {
                kind: *rng.pick(&KINDS),
                node: *rng.pick(&live),
            });
        }
        reads.push(v);
    }
    let expected = expected_of(&arena, &reads);
    Scenario {
        arena,
        live,
        reads,
        expected,
    }
}

/// single-thread results; the reads that abandon a formatting run are evaluated last, so that the
/// expectation of every other read is what it yields when nothing was abandoned before it
pub fn expected_of(arena: &Arena<String>, reads: &[Vec<Read>]) -> Vec<Vec<u64>> {
    let mut exp: Vec<Vec<u64>> = reads.iter().map(|v| vec![0u64; v.len()]).collect();
    for pass in 0..2 {
        for (t, v) in reads.iter().enumerate() {
            for (i, r) in v.iter().enumerate() {
                if (r.kind == ReadKind::PrettyFail) == (pass == 1) {
                    exp[t][i] = eval(arena, *r, &|| {});
                }
            }
        }
    }
    exp
}

/// digest of a scenario (for "distinct scenarios" accounting)
pub fn scenario_digest(s: &Scenario) -> u64 {
    let mut h = Fnv::new();
    for t in &s.expected {
        for x in t {
            h.u64(*x);
        }
    }
    h.u64(s.arena.count() as u64);
    h.0
}

/// "Hammer" scenario for the Miri leg: several top-level sibling chains with subtrees, and
/// threads that issue many reads on *different* start nodes at the same time. Any per-arena
/// state written by readers (a memo, a cursor cache) is under maximal contention here.
pub fn build_hammer(seed: u64, threads: usize, reads_per_thread: usize) -> Scenario {
    let mut rng = Rng::new(seed ^ 0x68616d6d6572);
    let mut a: Arena<String> = Arena::new();
    let chains = 2 + rng.usize_below(2);
    let mut heads = Vec::new();
    let mut serial = 0;
    let mut mk = || {
        serial += 1;
        format!("h{}", serial)
    };
    // a removed slot in front, so positions and ids are not aligned
    let junk = a.new_node(mk());
    for _ in 0..chains {
        let head = a.new_node(mk());
        let mut last = head;
        for _ in 0..(1 + rng.usize_below(3)) {
            let n = a.new_node(mk());
            last.insert_after(n, &mut a);
            last = n;
            if rng.coin() {
                let c = n.append_value(mk(), &mut a);
                if rng.coin() {
                    c.append_value(mk(), &mut a);
                }
            }
        }
        heads.push(head);
    }
    junk.remove(&mut a);
    // room for the owner's later in-place edits without moving the node storage
    a.reserve(16);
    let live = live_ids(&a);
    let tops: Vec<NodeId> = live.iter().copied().filter(|i| a[*i].parent().is_none()).collect();
    let mut reads = Vec::new();
    for t in 0..threads {
        let mut v = Vec::new();
        for i in 0..reads_per_thread {
            let kind = *rng.pick(&[
                ReadKind::FollowingRev,
                ReadKind::FollowingRev,
                ReadKind::PrecedingRev,
                ReadKind::Following,
                ReadKind::Preceding,
                ReadKind::Children,
                ReadKind::ChildrenRev,
                ReadKind::Descendants,
                ReadKind::GetNodeIdAt,
                ReadKind::Get,
                ReadKind::Pretty,
                ReadKind::PrettyFail,
            ]);
            // each thread prefers its own chain head, so concurrent calls have different arguments
            let node = if i % 2 == 0 { heads[t % heads.len()] } else { *rng.pick(&tops) };
            v.push(Read { kind, node });
        }
        reads.push(v);
    }
    let expected = expected_of(&a, &reads);
    Scenario {
        arena: a,
        live,
        reads,
        expected,
    }
}

/// An in-place edit made by the owner of the arena between two read phases.
#[derive(Clone, Debug)]
pub enum Edit {
    /// a new parentless node linked after `0` (extends / splits a top-level chain)
    NewAfter(NodeId, String),
    NewBefore(NodeId, String),
    AppendValue(NodeId, String),
    Remove(NodeId),
    MoveAfter(NodeId, NodeId),
}

pub fn apply_edit(a: &mut Arena<String>, e: &Edit) {
    match e {
        Edit::NewAfter(x, v) => {
            let n = a.new_node(v.clone());
            x.insert_after(n, a);
        }
        Edit::NewBefore(x, v) => {
            let n = a.new_node(v.clone());
            x.insert_before(n, a);
        }
        Edit::AppendValue(p, v) => {
            p.append_value(v.clone(), a);
        }
        Edit::Remove(x) => x.remove(a),
        Edit::MoveAfter(x, y) => {
            let _ = x.checked_insert_after(*y, a);
        }
    }
}

/// "Phased" scenario: persistent reader threads read, the owner edits the arena *in place*
/// (exclusive access through a lock, same address), the same threads read again. Any state a
/// reader keeps outside the arena (a thread-local or process-wide memo keyed by address or id)
/// is stale in the second phase.
pub struct Phased {
    pub arena: Arena<String>,
    pub edits: Vec<Edit>,
    pub reads1: Vec<Vec<Read>>,
    pub reads2: Vec<Vec<Read>>,
    pub exp1: Vec<Vec<u64>>,
    pub exp2: Vec<Vec<u64>>,
}

pub fn build_phased(seed: u64, threads: usize, reads_per_thread: usize) -> Phased {
    let base = build_hammer(seed, threads, reads_per_thread);
    let mut rng = Rng::new(seed ^ 0x706861736564);
    let arena = base.arena;
    let mut after = arena.clone();
    let mut edits = Vec::new();
    let n_edits = 2 + rng.usize_below(3);
    for i in 0..n_edits {
        let live = live_ids(&after);
        let tops: Vec<NodeId> = live.iter().copied().filter(|x| after[*x].parent().is_none()).collect();
        let e = match rng.below(6) {
            0 | 1 => {
                // extend a chain at its end: the last member of the chain of a random top node
                let mut last = *rng.pick(&tops);
                while let Some(nx) = after[last].next_sibling() {
                    last = nx;
                }
                Edit::NewAfter(last, format!("e{}", i))
            }
            2 => {
                let mut first = *rng.pick(&tops);
                while let Some(pv) = after[first].previous_sibling() {
                    first = pv;
                }
                Edit::NewBefore(first, format!("e{}", i))
            }
            3 => Edit::AppendValue(*rng.pick(&live), format!("e{}", i)),
            4 => {
                // remove a leaf that is not a chain head
                let leaves: Vec<NodeId> = live.iter().copied().filter(|x| after[*x].first_child().is_none() && after[*x].parent().is_some()).collect();
                if leaves.is_empty() {
                    Edit::AppendValue(*rng.pick(&live), format!("e{}", i))
                } else {
                    Edit::Remove(*rng.pick(&leaves))
                }
            }
            _ => {
                // relink chain ends without allocating: move one top-level node behind another
                let x = *rng.pick(&tops);
                let mut last = *rng.pick(&tops);
                while let Some(nx) = after[last].next_sibling() {
                    last = nx;
                }
                Edit::MoveAfter(last, x)
            }
        };
        apply_edit(&mut after, &e);
        edits.push(e);
    }
    // second-phase reads: same kinds, nodes that are live after the edits
    let live2 = live_ids(&after);
    let tops2: Vec<NodeId> = live2.iter().copied().filter(|x| after[*x].parent().is_none()).collect();
    let mut reads2 = Vec::new();
    for t in 0..threads {
        let mut v = Vec::new();
        for (i, r) in base.reads[t].iter().enumerate() {
            let node = if live2.contains(&r.node) && i % 3 != 2 { r.node } else { *rng.pick(&tops2) };
            v.push(Read { kind: r.kind, node });
        }
        reads2.push(v);
    }
    let exp2 = expected_of(&after, &reads2);
    Phased {
        arena,
        edits,
        reads1: base.reads,
        reads2,
        exp1: base.expected,
        exp2,
    }
}
