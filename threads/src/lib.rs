//! Engine `threadsim` (C18, and the par_iter clause of C17): scenarios shared by the shuttle
//! binary (seeded random / PCT schedules at call granularity) and the Miri binary (seeded
//! preemption at basic-block granularity, data-race detector, weak-memory emulation).
//!
//! A scenario is: an arena built by a seeded history (so it has removed slots, recycled slots and
//! top-level sibling chains), per-thread lists of read operations drawn from the harness PRNG
//! *before* any thread exists (the workload does not depend on the schedule), and the result of
//! every read computed single-threaded. Threads then perform their reads concurrently on one
//! shared `&Arena` and must observe exactly the single-thread results, under every schedule.

#[path = "../../sim/src/prng.rs"]
pub mod prng;

use indextree::{Arena, NodeEdge, NodeId};
use prng::{Fnv, Rng};
use std::num::NonZeroUsize;

#[derive(Clone, Copy, Debug, PartialEq, Eq)]
pub enum ReadKind {
    Ancestors,
    Predecessors,
    Preceding,
    Following,
    PrecedingRev,
    FollowingRev,
    Children,
    ChildrenRev,
    ReverseChildren,
    Descendants,
    Traverse,
    ReverseTraverse,
    Get,
    GetNodeId,
    GetNodeIdAt,
    Iter,
    Pretty,
}
pub const KINDS: [ReadKind; 17] = [
    ReadKind::Ancestors,
    ReadKind::Predecessors,
    ReadKind::Preceding,
    ReadKind::Following,
    ReadKind::PrecedingRev,
    ReadKind::FollowingRev,
    ReadKind::Children,
    ReadKind::ChildrenRev,
    ReadKind::ReverseChildren,
    ReadKind::Descendants,
    ReadKind::Traverse,
    ReadKind::ReverseTraverse,
    ReadKind::Get,
    ReadKind::GetNodeId,
    ReadKind::GetNodeIdAt,
    ReadKind::Iter,
    ReadKind::Pretty,
];

#[derive(Clone, Copy, Debug)]
pub struct Read {
    pub kind: ReadKind,
    pub node: NodeId,
}

pub struct Scenario {
    pub arena: Arena<String>,
    pub live: Vec<NodeId>,
    pub reads: Vec<Vec<Read>>,
    pub expected: Vec<Vec<u64>>,
}

pub fn live_ids(arena: &Arena<String>) -> Vec<NodeId> {
    (1..=arena.count())
        .filter_map(|i| arena.get_node_id_at(NonZeroUsize::new(i).unwrap()))
        .collect()
}

/// Build an arena by a seeded history of valid calls (checked forms; refusals are ignored).
pub fn build_arena(rng: &mut Rng, steps: usize, max_live: usize) -> Arena<String> {
    let mut a: Arena<String> = Arena::new();
    let mut serial = 0u32;
    for _ in 0..steps {
        let live = live_ids(&a);
        let mut mk = || {
            serial += 1;
            if serial % 5 == 0 {
                format!("n{}\nline2", serial)
            } else {
                format!("n{}", serial)
            }
        };
        if live.is_empty() || (live.len() < max_live && rng.chance(1, 3)) {
            if live.is_empty() || rng.coin() {
                a.new_node(mk());
            } else {
                let p = *rng.pick(&live);
                p.append_value(mk(), &mut a);
            }
            continue;
        }
        let x = *rng.pick(&live);
        let y = *rng.pick(&live);
        match rng.below(12) {
            0..=2 => {
                let _ = x.checked_append(y, &mut a);
            }
            3 => {
                let _ = x.checked_prepend(y, &mut a);
            }
            4 | 5 => {
                // top-level sibling chains: prefer a parentless target
                let roots: Vec<NodeId> = live.iter().copied().filter(|i| a[*i].parent().is_none()).collect();
                let t = if !roots.is_empty() && rng.coin() { *rng.pick(&roots) } else { x };
                let _ = t.checked_insert_after(y, &mut a);
            }
            6 => {
                let _ = x.checked_insert_before(y, &mut a);
            }
            7 => x.detach(&mut a),
            8 | 9 => x.remove(&mut a),
            10 => {
                if live.len() > 3 {
                    x.remove_subtree(&mut a)
                }
            }
            _ => {
                a.new_node(mk());
            }
        }
    }
    if live_ids(&a).is_empty() {
        a.new_node("last".to_string());
    }
    a
}

fn hid(h: &mut Fnv, id: NodeId) {
    h.u64(usize::from(id) as u64);
}

/// Evaluate one read; `pause` is called between every iterator step (scheduling point under
/// shuttle, no-op natively and under Miri, which preempts by itself).
#[allow(deprecated)]
pub fn eval(arena: &Arena<String>, r: Read, pause: &dyn Fn()) -> u64 {
    let mut h = Fnv::new();
    let n = r.node;
    macro_rules! walk {
        ($it:expr) => {{
            let mut it = $it;
            loop {
                pause();
                match it.next() {
                    Some(x) => hid(&mut h, x),
                    None => break,
                }
            }
        }};
    }
    match r.kind {
        ReadKind::Ancestors => walk!(n.ancestors(arena)),
        ReadKind::Predecessors => walk!(n.predecessors(arena)),
        ReadKind::Preceding => walk!(n.preceding_siblings(arena)),
        ReadKind::Following => walk!(n.following_siblings(arena)),
        ReadKind::PrecedingRev => walk!(n.preceding_siblings(arena).rev()),
        ReadKind::FollowingRev => walk!(n.following_siblings(arena).rev()),
        ReadKind::Children => walk!(n.children(arena)),
        ReadKind::ChildrenRev => walk!(n.children(arena).rev()),
        ReadKind::ReverseChildren => walk!(n.reverse_children(arena)),
        ReadKind::Descendants => walk!(n.descendants(arena)),
        ReadKind::Traverse | ReadKind::ReverseTraverse => {
            let fwd = r.kind == ReadKind::Traverse;
            let mut t = n.traverse(arena);
            let mut rt = n.reverse_traverse(arena);
            loop {
                pause();
                let e = if fwd { t.next() } else { rt.next() };
                match e {
                    Some(NodeEdge::Start(x)) => {
                        h.u8(1);
                        hid(&mut h, x)
                    }
                    Some(NodeEdge::End(x)) => {
                        h.u8(2);
                        hid(&mut h, x)
                    }
                    None => break,
                }
            }
        }
        ReadKind::Get => {
            let node = arena.get(n).unwrap();
            h.str(node.get());
            pause();
            for l in [node.parent(), node.previous_sibling(), node.next_sibling(), node.first_child(), node.last_child()] {
                match l {
                    Some(x) => hid(&mut h, x),
                    None => h.u8(0),
                }
            }
            h.u8(n.is_removed(arena) as u8);
        }
        ReadKind::GetNodeId => {
            let node = &arena[n];
            pause();
            match arena.get_node_id(node) {
                Some(x) => {
                    hid(&mut h, x);
                    h.u8((x == n) as u8);
                }
                None => h.u8(0),
            }
        }
        ReadKind::GetNodeIdAt => {
            for i in 1..=arena.count() + 1 {
                pause();
                match arena.get_node_id_at(NonZeroUsize::new(i).unwrap()) {
                    Some(x) => hid(&mut h, x),
                    None => h.u8(0),
                }
            }
        }
        ReadKind::Iter => {
            for node in arena.iter() {
                pause();
                h.u8(node.is_removed() as u8);
                if !node.is_removed() {
                    h.str(node.get());
                }
            }
            h.u64(arena.count() as u64);
        }
        ReadKind::Pretty => {
            pause();
            let s = format!("{:?}", n.debug_pretty_print(arena));
            h.str(&s);
            pause();
            let s = format!("{}", n.debug_pretty_print(arena));
            h.str(&s);
        }
    }
    h.0
}

pub fn build_scenario(seed: u64, threads: usize, reads_per_thread: usize, steps: usize, max_live: usize) -> Scenario {
    let mut rng = Rng::new(seed);
    let arena = build_arena(&mut rng, steps, max_live);
    let live = live_ids(&arena);
    let mut reads = Vec::new();
    for _ in 0..threads {
        let mut v = Vec::new();
        for _ in 0..reads_per_thread {
            // a third of the reads go to the double-ended sibling iterators of parentless nodes
            let roots: Vec<NodeId> = live.iter().copied().filter(|i| arena[*i].parent().is_none()).collect();
            if !roots.is_empty() && rng.chance(1, 3) {
                v.push(Read {
                    kind: *rng.pick(&[ReadKind::FollowingRev, ReadKind::PrecedingRev, ReadKind::Following, ReadKind::Preceding]),
                    node: *rng.pick(&roots),
                });
                continue;
            }
            v.push(Read {
                kind: *rng.pick(&KINDS),
                node: *rng.pick(&live),
            });
        }
        reads.push(v);
    }
    let expected = reads.iter().map(|v| v.iter().map(|r| eval(&arena, *r, &|| {})).collect()).collect();
    Scenario {
        arena,
        live,
        reads,
        expected,
    }
}

/// digest of a scenario (for "distinct scenarios" accounting)
pub fn scenario_digest(s: &Scenario) -> u64 {
    let mut h = Fnv::new();
    for t in &s.expected {
        for x in t {
            h.u64(*x);
        }
    }
    h.u64(s.arena.count() as u64);
    h.0
}

/// "Hammer" scenario for the Miri leg: several top-level sibling chains with subtrees, and
/// threads that issue many reads on *different* start nodes at the same time. Any per-arena
/// state written by readers (a memo, a cursor cache) is under maximal contention here.
pub fn build_hammer(seed: u64, threads: usize, reads_per_thread: usize) -> Scenario {
    let mut rng = Rng::new(seed ^ 0x68616d6d6572);
    let mut a: Arena<String> = Arena::new();
    let chains = 2 + rng.usize_below(2);
    let mut heads = Vec::new();
    let mut serial = 0;
    let mut mk = || {
        serial += 1;
        format!("h{}", serial)
    };
    // a removed slot in front, so positions and ids are not aligned
    let junk = a.new_node(mk());
    for _ in 0..chains {
        let head = a.new_node(mk());
        let mut last = head;
        for _ in 0..(1 + rng.usize_below(3)) {
            let n = a.new_node(mk());
            last.insert_after(n, &mut a);
            last = n;
            if rng.coin() {
                let c = n.append_value(mk(), &mut a);
                if rng.coin() {
                    c.append_value(mk(), &mut a);
                }
            }
        }
        heads.push(head);
    }
    junk.remove(&mut a);
    let live = live_ids(&a);
    let tops: Vec<NodeId> = live.iter().copied().filter(|i| a[*i].parent().is_none()).collect();
    let mut reads = Vec::new();
    for t in 0..threads {
        let mut v = Vec::new();
        for i in 0..reads_per_thread {
            let kind = *rng.pick(&[
                ReadKind::FollowingRev,
                ReadKind::FollowingRev,
                ReadKind::PrecedingRev,
                ReadKind::Following,
                ReadKind::Preceding,
                ReadKind::Children,
                ReadKind::ChildrenRev,
                ReadKind::Descendants,
                ReadKind::GetNodeIdAt,
                ReadKind::Get,
            ]);
            // each thread prefers its own chain head, so concurrent calls have different arguments
            let node = if i % 2 == 0 { heads[t % heads.len()] } else { *rng.pick(&tops) };
            v.push(Read { kind, node });
        }
        reads.push(v);
    }
    let expected = reads.iter().map(|v| v.iter().map(|r| eval(&a, *r, &|| {})).collect()).collect();
    Scenario {
        arena: a,
        live,
        reads,
        expected,
    }
}
