//! shuttle part of `threadsim`: seeded random and PCT schedules over concurrent readers.
//!
//!   shuttle_sim run --seed S --scenarios N --iters M --replay-dir DIR --part FILE
//!   shuttle_sim replay FILE.json
//!
//! exit 0 held, 1 violation (VIOLATION line), 2 harness error

use ixthreads::prng::{run_seed, Rng};
use ixthreads::{build_scenario, eval, scenario_digest, Scenario};
use shuttle::scheduler::{PctScheduler, RandomScheduler};
use shuttle::{Config, FailurePersistence, Runner};
use std::collections::BTreeSet;
use std::panic::{catch_unwind, AssertUnwindSafe};
use std::sync::Arc;
use std::time::{Duration, Instant};

#[derive(Clone, Copy, Debug)]
struct Params {
    threads: usize,
    reads: usize,
    steps: usize,
    max_live: usize,
}

fn params_of(sseed: u64) -> Params {
    let mut r = Rng::new(sseed ^ 0xabcdef);
    Params {
        threads: r.range(2, 4) as usize,
        reads: r.range(2, 6) as usize,
        steps: r.range(4, 60) as usize,
        max_live: r.range(3, 16) as usize,
    }
}

fn body(sc: &Arc<Scenario>) {
    let mut hs = Vec::new();
    for t in 0..sc.reads.len() {
        let sc = sc.clone();
        hs.push(shuttle::thread::spawn(move || {
            for (i, r) in sc.reads[t].iter().enumerate() {
                let got = eval(&sc.arena, *r, &|| shuttle::thread::sleep(Duration::from_millis(0)));
                assert_eq!(
                    got, sc.expected[t][i],
                    "thread {} read #{} ({:?} from node {}) observed something a single thread does not",
                    t, i, r.kind, r.node
                );
            }
        }));
    }
    for h in hs {
        h.join().unwrap();
    }
}

fn arg<'a>(args: &'a [String], name: &str) -> Option<&'a str> {
    args.iter().position(|a| a == name).and_then(|i| args.get(i + 1)).map(|s| s.as_str())
}

fn json_str(s: &str) -> String {
    let mut o = String::from("\"");
    for c in s.chars() {
        match c {
            '"' => o.push_str("\\\""),
            '\\' => o.push_str("\\\\"),
            '\n' => o.push_str("\\n"),
            c if (c as u32) < 0x20 => o.push_str(&format!("\\u{:04x}", c as u32)),
            c => o.push(c),
        }
    }
    o.push('"');
    o
}

fn main() {
    let args: Vec<String> = std::env::args().collect();
    let code = match args.get(1).map(|s| s.as_str()) {
        Some("run") => run(&args[2..]),
        Some("replay") => replay(&args[2..]),
        _ => {
            eprintln!("usage: shuttle_sim run|replay ...");
            2
        }
    };
    std::process::exit(code);
}

fn run(args: &[String]) -> i32 {
    let seed: u64 = arg(args, "--seed").and_then(|s| s.parse().ok()).unwrap_or(1);
    let scenarios: u64 = arg(args, "--scenarios").and_then(|s| s.parse().ok()).unwrap_or(20);
    let iters: usize = arg(args, "--iters").and_then(|s| s.parse().ok()).unwrap_or(100);
    let rdir = arg(args, "--replay-dir").unwrap_or("/verif/replays").to_string();
    let part = arg(args, "--part");
    let t0 = Instant::now();
    let mut schedules = 0usize;
    let mut distinct: BTreeSet<u64> = BTreeSet::new();
    let mut sample = String::new();
    let mut nondet_checked = 0;
    let mut code = 0;
    let mut detail = String::new();
    'outer: for i in 0..scenarios {
        let sseed = run_seed(seed, "C18", i);
        let p = params_of(sseed);
        let sc = Arc::new(build_scenario(sseed, p.threads, p.reads, p.steps, p.max_live));
        distinct.insert(scenario_digest(&sc));
        if sample.is_empty() {
            sample = format!(
                "{{\"scenario_index\": {}, \"threads\": {}, \"reads_per_thread\": {}, \"history_steps\": {}, \"arena_slots\": {}, \"live_nodes\": {}, \"reads_thread0\": {}}}",
                i,
                p.threads,
                p.reads,
                p.steps,
                sc.arena.count(),
                sc.live.len(),
                json_str(&format!("{:?}", sc.reads[0].iter().map(|r| (r.kind, usize::from(r.node))).collect::<Vec<_>>()))
            );
        }
        if i < 2 {
            // the scenario itself must be deterministic (no uncontrolled nondeterminism)
            let s2 = sc.clone();
            let r = catch_unwind(AssertUnwindSafe(|| shuttle::check_uncontrolled_nondeterminism(move || body(&s2), 20)));
            if r.is_err() {
                println!("HARNESS-ERROR: shuttle reports uncontrolled nondeterminism in the scenario");
                return 2;
            }
            nondet_checked += 1;
        }
        for sched in ["random", "pct"] {
            let dir = format!("{}/shuttle-{}-{}-{}", rdir, seed, i, sched);
            let _ = std::fs::remove_dir_all(&dir);
            let _ = std::fs::create_dir_all(&dir);
            let mut cfg = Config::new();
            cfg.failure_persistence = FailurePersistence::File(Some(dir.clone().into()));
            let s2 = sc.clone();
            let r = catch_unwind(AssertUnwindSafe(|| {
                if sched == "random" {
                    Runner::new(RandomScheduler::new_from_seed(sseed, iters), cfg).run(move || body(&s2))
                } else {
                    Runner::new(PctScheduler::new_from_seed(sseed, 3, iters), cfg).run(move || body(&s2))
                }
            }));
            match r {
                Ok(n) => {
                    schedules += n;
                    let _ = std::fs::remove_dir_all(&dir);
                }
                Err(e) => {
                    let msg = e
                        .downcast_ref::<String>()
                        .cloned()
                        .or_else(|| e.downcast_ref::<&str>().map(|s| s.to_string()))
                        .unwrap_or_default();
                    let sched_file = std::fs::read_dir(&dir)
                        .ok()
                        .and_then(|mut d| d.next())
                        .and_then(|e| e.ok())
                        .map(|e| e.path().display().to_string())
                        .unwrap_or_default();
                    let path = format!("{}/C18-{}-{}-{}.json", rdir, seed, i, sched);
                    let j = format!(
                        "{{\n \"engine\": \"threadsim-shuttle\",\n \"property\": \"C18\",\n \"batch_seed\": {},\n \"scenario_index\": {},\n \"scenario_seed\": {},\n \"threads\": {},\n \"reads\": {},\n \"steps\": {},\n \"max_live\": {},\n \"scheduler\": {},\n \"schedule_file\": {},\n \"detail\": {}\n}}\n",
                        seed,
                        i,
                        sseed,
                        p.threads,
                        p.reads,
                        p.steps,
                        p.max_live,
                        json_str(sched),
                        json_str(&sched_file),
                        json_str(&msg)
                    );
                    let _ = std::fs::write(&path, j);
                    println!("shuttle: scenario {} ({} scheduler): {}", i, sched, msg.lines().next().unwrap_or(""));
                    println!("VIOLATION property=C18 replay={}", path);
                    detail = msg;
                    code = 1;
                    break 'outer;
                }
            }
        }
    }
    let wall = t0.elapsed().as_secs_f64();
    println!(
        "shuttle_sim: {} scenarios ({} distinct), {} schedules, {:.1}s",
        scenarios,
        distinct.len(),
        schedules,
        wall
    );
    if let Some(p) = part {
        let j = format!(
            "{{\n \"engine\": \"threadsim\",\n \"evaluations\": {},\n \"distinct_nontrivial\": {},\n \"distinct_schedules\": {},\n \"samples\": [{}],\n \"violations\": {},\n \"wall_s\": {},\n \"fault_kinds_fired\": {{\"S-shuttle-random-and-pct-schedules\": {}}},\n \"probes\": {{\"uncontrolled_nondeterminism_checks_passed\": {}}},\n \"note\": {}\n}}\n",
            schedules,
            distinct.len(),
            schedules,
            if sample.is_empty() { "{}".to_string() } else { sample },
            if code == 1 { 1 } else { 0 },
            wall,
            schedules,
            nondet_checked,
            json_str(&format!("shuttle leg: random + PCT(depth 3) schedulers, {} iterations each per scenario, scheduling points between all iterator steps {}", iters, detail.lines().next().unwrap_or("")))
        );
        let _ = std::fs::write(p, j);
    }
    code
}

fn get_num(text: &str, key: &str) -> Option<u64> {
    let k = format!("\"{}\":", key);
    let i = text.find(&k)? + k.len();
    let rest = text[i..].trim_start();
    let end = rest.find(|c: char| !c.is_ascii_digit()).unwrap_or(rest.len());
    rest[..end].parse().ok()
}
fn get_str(text: &str, key: &str) -> Option<String> {
    let k = format!("\"{}\":", key);
    let i = text.find(&k)? + k.len();
    let rest = text[i..].trim_start().strip_prefix('"')?;
    let end = rest.find('"')?;
    Some(rest[..end].to_string())
}

fn replay(args: &[String]) -> i32 {
    let Some(path) = args.first() else { return 2 };
    let Ok(text) = std::fs::read_to_string(path) else {
        eprintln!("cannot read {}", path);
        return 2;
    };
    let (Some(sseed), Some(threads), Some(reads), Some(steps), Some(max_live), Some(sfile)) = (
        get_num(&text, "scenario_seed"),
        get_num(&text, "threads"),
        get_num(&text, "reads"),
        get_num(&text, "steps"),
        get_num(&text, "max_live"),
        get_str(&text, "schedule_file"),
    ) else {
        eprintln!("cannot parse {}", path);
        return 2;
    };
    let sc = Arc::new(build_scenario(sseed, threads as usize, reads as usize, steps as usize, max_live as usize));
    let r = catch_unwind(AssertUnwindSafe(|| shuttle::replay_from_file(move || body(&sc), &sfile)));
    match r {
        Ok(()) => {
            println!("replay: schedule {} passes", sfile);
            0
        }
        Err(_) => {
            println!("VIOLATION property=C18 replay={}", path);
            1
        }
    }
}
