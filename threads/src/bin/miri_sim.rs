//! Miri part of `threadsim`: the same scenario with real `std::thread::scope` threads (and a rayon
//! pool variant for `par_iter`). Run under `cargo +nightly miri run` with
//! `-Zmiri-many-seeds=<range> -Zmiri-preemption-rate=0.1`: Miri's scheduler is seeded and
//! deterministic, preempts at basic-block boundaries, emulates weak memory and reports data races
//! as undefined behaviour - the part that reaches *inside* library calls.
//!
//!   miri_sim <scenario-seed> plain|rayon
//! (seed and mode come by argv, never by plain env: cargo-miri replays build-time env)

use ixthreads::{apply_edit, build_hammer, build_phased, build_scenario, eval};
use rayon::prelude::*;

fn main() {
    let args: Vec<String> = std::env::args().collect();
    let seed: u64 = args.get(1).and_then(|s| s.parse().ok()).unwrap_or(1);
    let mode = args.get(2).map(|s| s.as_str()).unwrap_or("plain");
    if mode == "phased" {
        // persistent reader threads; the owner edits in place between the two read phases
        let p = build_phased(seed, 3, 6);
        // (a clone would have exact capacity: keep the slack, so that the owner's edits happen in place)
        let mut shared = p.arena.clone();
        shared.reserve(16);
        let lock = std::sync::RwLock::new(shared);
        let barrier = std::sync::Barrier::new(p.reads1.len() + 1);
        std::thread::scope(|s| {
            for t in 0..p.reads1.len() {
                let (p, lock, barrier) = (&p, &lock, &barrier);
                s.spawn(move || {
                    {
                        let a = lock.read().unwrap();
                        for (i, r) in p.reads1[t].iter().enumerate() {
                            assert_eq!(eval(&a, *r, &|| {}), p.exp1[t][i], "phase 1: thread {} read #{} differs from the single-thread result", t, i);
                        }
                    }
                    barrier.wait();
                    barrier.wait();
                    let a = lock.read().unwrap();
                    for (i, r) in p.reads2[t].iter().enumerate() {
                        assert_eq!(
                            eval(&a, *r, &|| {}),
                            p.exp2[t][i],
                            "phase 2 (after in-place edits by the owner): thread {} read #{} ({:?} from node {}) differs from the single-thread result",
                            t,
                            i,
                            r.kind,
                            r.node
                        );
                    }
                });
            }
            barrier.wait();
            {
                let mut a = lock.write().unwrap();
                for e in &p.edits {
                    apply_edit(&mut a, e);
                }
            }
            barrier.wait();
        });
        println!("miri_sim ok seed={} mode=phased edits={}", seed, p.edits.len());
        return;
    }
    let sc = if mode == "hammer" { build_hammer(seed, 3, 10) } else { build_scenario(seed, 3, 6, 16, 8) };
    match mode {
        "rayon" => {
            let pool = rayon::ThreadPoolBuilder::new().num_threads(3).build().unwrap();
            let arena = &sc.arena;
            let key = |n: &indextree::Node<String>| (n.is_removed(), n.parent().map(usize::from), if n.is_removed() { String::new() } else { n.get().clone() });
            let seq: Vec<_> = arena.iter().map(key).collect();
            let (par, cnt) = pool.install(|| (arena.par_iter().map(key).collect::<Vec<_>>(), arena.par_iter().count()));
            assert_eq!(par, seq, "par_iter visited something else than iter");
            assert_eq!(cnt, arena.count());
            // readers inside the pool as well
            let res: Vec<Vec<u64>> = pool.install(|| {
                sc.reads.par_iter().map(|list| list.iter().map(|r| eval(arena, *r, &|| {})).collect()).collect()
            });
            assert_eq!(res, sc.expected, "a rayon worker observed something a single thread does not");
        }
        _ => {
            std::thread::scope(|s| {
                for (t, list) in sc.reads.iter().enumerate() {
                    let sc = &sc;
                    s.spawn(move || {
                        for (i, r) in list.iter().enumerate() {
                            let got = eval(&sc.arena, *r, &|| {});
                            assert_eq!(got, sc.expected[t][i], "thread {} read #{} observed something a single thread does not", t, i);
                        }
                    });
                }
            });
        }
    }
    println!("miri_sim ok seed={} mode={} slots={} live={}", seed, mode, sc.arena.count(), sc.live.len());
}
