#!/usr/bin/env bash
# Engine `threadsim` driver (C18): build guard + shuttle schedules + Miri seeds.
#   run.sh --build-only THR_MANIFEST TDIR
#   run.sh --replay THR_MANIFEST TDIR FILE GUARD_MANIFEST
#   run.sh quick|thorough THR_MANIFEST TDIR GUARD_MANIFEST SEED PART REPO
set -u
export CARGO_NET_OFFLINE=true
VERIF="$(cd "$(dirname "${BASH_SOURCE[0]}")/.." && pwd)"
MODE="$1"; THR="$2"; TDIR="$3"
MIRI_PLAIN="-Zmiri-preemption-rate=0.1"
MIRI_RAYON="-Zmiri-preemption-rate=0.1 -Zmiri-tree-borrows -Zmiri-permissive-provenance -Zmiri-ignore-leaks"

build_threads() {
  local log="$VERIF/.build/parts/build-threads.log"
  mkdir -p "$VERIF/.build/parts"
  if ! cargo build --offline -q --release --manifest-path "$THR" --target-dir "$TDIR" >"$log" 2>&1; then
    echo "HARNESS-ERROR: build of threadsim failed; see $log" >&2
    grep -E "^error" -A 6 "$log" | head -30 >&2
    return 2
  fi
}

miri_run() { # miri_run <scenario-seed> <mode> <seed-range> <logfile>
  local flags="$MIRI_PLAIN"; [ "$2" = rayon ] && flags="$MIRI_RAYON"
  MIRIFLAGS="-Zmiri-many-seeds=$3 $flags" cargo +nightly miri run --offline -q --manifest-path "$THR" \
      --target-dir "$TDIR-miri" --bin miri_sim -- "$1" "$2" >"$4" 2>&1
}

if [ "$MODE" = "--build-only" ]; then
  build_threads || exit 2
  # warm the Miri build (sysroot + dependencies) so that checks only pay for interpretation
  miri_run 1 plain 0..1 "$VERIF/.build/parts/miri-warm.log" || { echo "HARNESS-ERROR: miri warm-up failed; see $VERIF/.build/parts/miri-warm.log" >&2; exit 2; }
  exit 0
fi

if [ "$MODE" = "--replay" ]; then
  FILE="$4"
  ENGINE="$(python3 -c 'import json,sys; print(json.load(open(sys.argv[1])).get("engine",""))' "$FILE" 2>/dev/null)"
  case "$ENGINE" in
    threadsim-shuttle)
      build_threads || exit 2
      "$TDIR/release/shuttle_sim" replay "$FILE"; exit $? ;;
    threadsim-miri)
      S="$(python3 -c 'import json,sys; print(json.load(open(sys.argv[1]))["scenario_seed"])' "$FILE")"
      M="$(python3 -c 'import json,sys; print(json.load(open(sys.argv[1]))["mode"])' "$FILE")"
      R="$(python3 -c 'import json,sys; print(json.load(open(sys.argv[1]))["miri_seeds"])' "$FILE")"
      LOG="$VERIF/.build/parts/miri-replay.log"
      if miri_run "$S" "$M" "$R" "$LOG"; then echo "replay: Miri reports nothing for scenario $S ($M, seeds $R)"; exit 0; fi
      tail -30 "$LOG"; echo "VIOLATION property=C18 replay=$FILE"; exit 1 ;;
    threadsim-guard)
      echo "replay: re-running the build guard"; exec "$0" quick "$THR" "$TDIR" "$5" 1 "$VERIF/.build/parts/C18-replay.json" /repo ;;
    *) echo "unknown replay engine '$ENGINE'" >&2; exit 2 ;;
  esac
fi

TIER="$MODE"; GUARD="$4"; SEED="$5"; PART="$6"; REPO="$7"
T0=$(date +%s.%N)
RPD="${RPDIR:-$VERIF/replays}"
mkdir -p "$RPD" "$VERIF/.build/parts"
build_threads || exit 2          # also proves that indextree itself compiles (else: harness error, not a verdict)

emit_part() { # emit_part <violations> <miri_plain_runs> <miri_rayon_runs> <guard_ok>
  python3 - "$PART" "$VERIF/.build/parts/C18-shuttle.json" "$1" "$2" "$3" "$4" "$T0" <<'EOF'
import json, sys, time, subprocess
part, sh, viol, mp, mr, guard, t0 = sys.argv[1:8]
try:
    p = json.load(open(sh))
except Exception:
    p = {"engine": "threadsim", "evaluations": 0, "distinct_nontrivial": 0, "samples": [], "fault_kinds_fired": {}, "probes": {}}
p["evaluations"] = int(p.get("evaluations", 0)) + int(mp) + int(mr)
p["distinct_schedules"] = int(p.get("distinct_schedules", 0)) + int(mp) + int(mr)
p["fault_kinds_fired"]["S-miri-seeded-preemption-plain-threads"] = int(mp)
p["fault_kinds_fired"]["S-miri-seeded-preemption-rayon-pool"] = int(mr)
p["probes"]["build_guard_compiled"] = int(guard)
p["violations"] = int(viol)
p["trusted_base"] = ["rustc: Send/Sync/RefUnwindSafe bounds of guard/src/lib.rs for every T", "rustc nightly: Freeze bound (no UnsafeCell directly inside Arena/Node/NodeId/iterators) for every T: Freeze", "rustc -F unsafe_code on indextree (std, macros, par_iter, deser)"]
json.dump(p, open(part, "w"), indent=1)
EOF
}

# ---- 1. build guard (type-level clause): compilation, not simulation
GLOG="$VERIF/.build/parts/guard.log"
if ! { cargo build --offline -q --release --manifest-path "$GUARD" --target-dir "$TDIR-guard" >"$GLOG" 2>&1 && \
       cargo build --offline -q --release --features allfeatures --manifest-path "$GUARD" --target-dir "$TDIR-guard" >>"$GLOG" 2>&1; }; then
  RP="$RPD/C18-guard.json"
  python3 - "$GLOG" "$RP" <<'EOF'
import json, sys
json.dump({"engine": "threadsim-guard", "property": "C18", "detail": open(sys.argv[1]).read()[-4000:]}, open(sys.argv[2], "w"), indent=1)
EOF
  grep -E "^error" -A 8 "$GLOG" | head -30
  echo "VIOLATION property=C18 replay=$RP"
  emit_part 1 0 0 0; exit 1
fi
# nightly leg of the guard: Freeze (no interior mutability directly inside the types)
if ! { cargo +nightly build --offline -q --release --features nightly --manifest-path "$GUARD" --target-dir "$TDIR-guard-nightly" >"$GLOG" 2>&1 && \
       cargo +nightly build --offline -q --release --features nightly,allfeatures --manifest-path "$GUARD" --target-dir "$TDIR-guard-nightly" >>"$GLOG" 2>&1; }; then
  RP="$RPD/C18-guard.json"
  python3 -c 'import json,sys; json.dump({"engine": "threadsim-guard", "property": "C18", "detail": open(sys.argv[1]).read()[-4000:]}, open(sys.argv[2], "w"), indent=1)' "$GLOG" "$RP"
  grep -E "^error" -A 8 "$GLOG" | head -30
  echo "VIOLATION property=C18 replay=$RP"
  emit_part 1 0 0 0; exit 1
fi
if ! cargo rustc --offline -q --release --manifest-path "$REPO/indextree/Cargo.toml" --lib --features deser,par_iter \
      --target-dir "$TDIR-forbid" -- -F unsafe_code >"$GLOG" 2>&1; then
  if grep -q "unsafe" "$GLOG"; then
    RP="$RPD/C18-guard.json"
    python3 - "$GLOG" "$RP" <<'EOF'
import json, sys
json.dump({"engine": "threadsim-guard", "property": "C18", "detail": open(sys.argv[1]).read()[-4000:]}, open(sys.argv[2], "w"), indent=1)
EOF
    grep -E "^error" -A 8 "$GLOG" | head -30
    echo "VIOLATION property=C18 replay=$RP"
    emit_part 1 0 0 0; exit 1
  fi
  echo "HARNESS-ERROR: -F unsafe_code build failed for another reason; see $GLOG" >&2; exit 2
fi

# ---- 2. shuttle schedules
if [ "$TIER" = thorough ]; then SCEN=2500; ITERS=100; else SCEN=100; ITERS=40; fi
"$TDIR/release/shuttle_sim" run --seed "$SEED" --scenarios "$SCEN" --iters "$ITERS" --replay-dir "$RPD" --part "$VERIF/.build/parts/C18-shuttle.json"
RC=$?
if [ "$RC" != 0 ]; then emit_part $([ "$RC" = 1 ] && echo 1 || echo 0) 0 0 1; exit "$RC"; fi

# ---- 3. Miri seeds (scenario seeds derived from VERIF_SEED)
# modes: phased = persistent readers, in-place edits by the owner between two read phases;
# plain = seeded random scenario on std threads; hammer = several top-level chains, many
# concurrent reads on different start nodes (contention on any reader-written state);
# rayon = par_iter and readers inside a rayon pool
if [ "$TIER" = thorough ]; then PLAN="plain:6:0..8 hammer:10:0..16 phased:12:0..4 rayon:4:0..8"; else PLAN="plain:1:0..3 hammer:2:0..8 phased:3:0..2 rayon:1:0..3"; fi
MP=0; MR=0
for leg in $PLAN; do
  M="${leg%%:*}"; rest="${leg#*:}"; N="${rest%%:*}"; RANGE="${rest#*:}"
  W=$(( ${RANGE#*..} - ${RANGE%..*} ))
  for i in $(seq 1 $N); do
    case $M in plain) S=$(( SEED * 1000 + i ));; hammer) S=$(( SEED * 1000 + 200 + i ));; phased) S=$(( SEED * 1000 + 300 + i ));; *) S=$(( SEED * 1000 + 500 + i ));; esac
    LOG="$VERIF/.build/parts/miri-$M-$i.log"
    if ! miri_run "$S" "$M" "$RANGE" "$LOG"; then
      RP="$RPD/C18-miri-$M-$S.json"
      python3 -c 'import json,sys; json.dump({"engine": "threadsim-miri", "property": "C18", "scenario_seed": int(sys.argv[3]), "mode": sys.argv[4], "miri_seeds": sys.argv[5], "detail": open(sys.argv[1]).read()[-6000:]}, open(sys.argv[2], "w"), indent=1)' "$LOG" "$RP" "$S" "$M" "$RANGE"
      grep -E "panicked|observed|Undefined Behavior|Data race|error:" "$LOG" | head -8
      echo "VIOLATION property=C18 replay=$RP"; emit_part 1 $MP $MR 1; exit 1
    fi
    if [ "$M" = rayon ]; then MR=$(( MR + W )); else MP=$(( MP + W )); fi
  done
done
echo "threadsim: guard ok, shuttle ok, Miri: $MP plain-thread runs, $MR rayon-pool runs, no data race / UB reported"
emit_part 0 $MP $MR 1
exit 0
